package checks

import (
	"encoding/json"
	"fmt"
	"sort"
	"strings"
	"time"

	"github.com/influxdata/influxql"

	"verif/harness/astx"
	"verif/harness/ev"
)

// C18 — SetTimeRange replaces earlier time bounds, over any sequence of windows.
//
// History exploration: roots are SELECTs whose WHERE comes from the condition model; a transition
// is SetTimeRange(w); successors are built by re-parsing the root and replaying the history on a
// fresh statement; states are deduplicated by canonical hash of the statement.

type c18Case struct {
	Atoms    []int `json:"atoms"` // empty = no WHERE
	Shape    int   `json:"shape"`
	Zone     int   `json:"zone"`
	Windows  []int `json:"windows"`
	Thorough bool  `json:"thorough"`
}

type c18window struct{ start, end time.Time }

var c18windows = []c18window{
	{time.Date(2000, 1, 1, 0, 0, 0, 0, time.UTC), time.Date(2000, 1, 1, 1, 0, 0, 0, time.UTC)},
	{time.Date(2000, 1, 1, 1, 0, 0, 0, time.UTC), time.Date(2000, 1, 1, 2, 0, 0, 0, time.UTC)},
	{time.Date(1999, 12, 31, 0, 0, 0, 0, time.UTC), time.Date(2000, 1, 2, 0, 0, 0, 1, time.UTC)},
	// windows that select nothing: zero width, and end before start (only used with conditions of at most one atom)
	{time.Date(2000, 1, 1, 0, 30, 0, 0, time.UTC), time.Date(2000, 1, 1, 0, 30, 0, 0, time.UTC)},
	{time.Date(2000, 1, 1, 2, 0, 0, 0, time.UTC), time.Date(2000, 1, 1, 1, 0, 0, 0, time.UTC)},
}

const c18ordinaryWindows = 3

func c18atomTable(th bool) []cmAtom {
	a := cmTimeAtoms(cmLiterals(false), true)
	a = append(a, cmNonTimeAtoms()...)
	// a bare top-level OR among non-time predicates (only used as the whole condition)
	a = append(a, cmAtom{text: "host = 'a' OR region = 'x'", eval: func(p cmPoint) bool { return p.host == "a" || p.region == "x" }, form: "bare-or"})
	return a
}

var c18tab = c18atomTable(false)

// c18sem evaluates a condition at a point with an interpretation of time comparisons written in
// any literal form; ok=false if some part cannot be interpreted.
func c18sem(e influxql.Expr, p cmPoint, z *time.Location) (val bool, ok bool) {
	switch e := e.(type) {
	case *influxql.ParenExpr:
		return c18sem(e.Expr, p, z)
	case *influxql.BooleanLiteral:
		return e.Val, true
	case *influxql.BinaryExpr:
		if e.Op == influxql.AND || e.Op == influxql.OR {
			l, ok1 := c18sem(e.LHS, p, z)
			r, ok2 := c18sem(e.RHS, p, z)
			if !ok1 || !ok2 {
				return false, false
			}
			if e.Op == influxql.AND {
				return l && r, true
			}
			return l || r, true
		}
		isTime := func(x influxql.Expr) bool {
			v, ok := x.(*influxql.VarRef)
			return ok && strings.ToLower(v.Val) == "time"
		}
		op := e.Op
		var other influxql.Expr
		switch {
		case isTime(e.LHS):
			other = e.RHS
		case isTime(e.RHS):
			other = e.LHS
			switch op {
			case influxql.LT:
				op = influxql.GT
			case influxql.GT:
				op = influxql.LT
			case influxql.LTE:
				op = influxql.GTE
			case influxql.GTE:
				op = influxql.LTE
			}
		default:
			if influxql.HasTimeExpr(e) {
				return false, false
			}
			return influxql.EvalBool(e, p.env()), true
		}
		v, ok := c18timeValue(other, z)
		if !ok {
			return false, false
		}
		switch op {
		case influxql.EQ:
			return p.t == v, true
		case influxql.LT:
			return p.t < v, true
		case influxql.LTE:
			return p.t <= v, true
		case influxql.GT:
			return p.t > v, true
		case influxql.GTE:
			return p.t >= v, true
		}
		return false, false
	}
	return false, false
}

func c18timeValue(e influxql.Expr, z *time.Location) (int64, bool) {
	switch e := e.(type) {
	case *influxql.IntegerLiteral:
		return e.Val, true
	case *influxql.DurationLiteral:
		return int64(e.Val), true
	case *influxql.TimeLiteral:
		return e.Val.UnixNano(), true
	case *influxql.StringLiteral:
		for _, f := range []string{time.RFC3339Nano, "2006-01-02 15:04:05.999999", "2006-01-02"} {
			if t, err := time.ParseInLocation(f, e.Val, z); err == nil {
				return t.UnixNano(), true
			}
		}
		return 0, false
	case *influxql.Call:
		if e.Name == "now" && len(e.Args) == 0 {
			return cmNow.UnixNano(), true
		}
	case *influxql.ParenExpr:
		return c18timeValue(e.Expr, z)
	case *influxql.BinaryExpr:
		l, ok1 := c18timeValue(e.LHS, z)
		r, ok2 := c18timeValue(e.RHS, z)
		if ok1 && ok2 {
			switch e.Op {
			case influxql.ADD:
				return l + r, true
			case influxql.SUB:
				return l - r, true
			}
		}
	}
	return 0, false
}

// c18predicates lists, sorted, the comparisons of a condition that do not mention time, each as a full dump
// (so that a lost type suffix or a changed literal shows).
func c18predicates(e influxql.Expr) []string {
	var out []string
	var walk func(e influxql.Expr)
	walk = func(e influxql.Expr) {
		switch x := e.(type) {
		case *influxql.ParenExpr:
			walk(x.Expr)
		case *influxql.BinaryExpr:
			if x.Op == influxql.AND || x.Op == influxql.OR {
				walk(x.LHS)
				walk(x.RHS)
				return
			}
			if influxql.HasTimeExpr(x) || c18mentionsTime(x) {
				return
			}
			out = append(out, astx.Dump(astx.Full, x))
		}
	}
	if e != nil {
		walk(e)
	}
	sort.Strings(out)
	return out
}

func c18mentionsTime(e influxql.Expr) bool {
	found := false
	influxql.WalkFunc(e, func(n influxql.Node) {
		if v, ok := n.(*influxql.VarRef); ok && strings.EqualFold(v.Val, "time") {
			found = true
		}
	})
	return found
}

func countNodes(e influxql.Expr) int {
	n := 0
	influxql.WalkFunc(e, func(influxql.Node) { n++ })
	return n
}

// c18eval replays the history on a fresh statement and checks the invariants in every state.
func c18eval(c c18Case) (out []ev.Finding, hashes []uint64) {
	var atoms []cmAtom
	for _, i := range c.Atoms {
		atoms = append(atoms, c18tab[i])
	}
	text := "SELECT f FROM m"
	if len(atoms) > 0 {
		text += " WHERE " + cmRender(cmShapes[len(atoms)][c.Shape], atoms)
	}
	z := cmZones[c.Zone]
	zl := cmLoc(z)
	wit := fmt.Sprintf("%s [zone %s] windows=%v", text, cmZoneName(z), c.Windows)
	stmt0, err := influxql.ParseStatement(text)
	if err != nil {
		return []ev.Finding{{Sig: "generator:rejected", Witness: text, Detail: err.Error(), Case: c}}, nil
	}
	stmt := stmt0.(*influxql.SelectStatement)
	var nonTime []cmAtom
	timeForm := ""
	for _, a := range atoms {
		if !a.isTime {
			nonTime = append(nonTime, a)
		} else {
			switch {
			case a.upper:
				timeForm += "+upper-case-TIME"
			case a.right:
				timeForm += "+time-on-right"
			default:
				timeForm += "+time-on-left"
			}
		}
	}
	for _, a := range nonTime {
		if a.form == "bare-or" {
			timeForm += "+bare-top-level-OR"
		}
	}
	rank := len(text) + 100*len(c.Windows)
	preds0 := c18predicates(stmt.Condition)
	prevNodes := -1
	valuer := &influxql.NowValuer{Now: cmNow, Location: z}
	var twin *influxql.SelectStatement
	if t2, err := influxql.ParseStatement(text); err == nil && len(c.Windows) > 1 {
		twin = t2.(*influxql.SelectStatement)
	}
	defer func() {
		// whatever happened to the first statement since, the second still selects the one window it was given
		if twin == nil || len(out) > 0 {
			return
		}
		w := c18windows[c.Windows[0]]
		_, tr, cerr := influxql.ConditionExpr(twin.Condition, valuer)
		if cerr != nil || tr.MinTimeNano() != w.start.UnixNano() || tr.MaxTimeNano() != w.end.UnixNano()-1 {
			out = append(out, ev.Finding{Sig: "window-of-another-statement-disturbed:" + ev.SigSafe(timeForm), Witness: wit,
				Detail: fmt.Sprintf("a second statement with the same text was given window %d once; after the first statement went through windows %v its condition is %s (%v)", c.Windows[0], c.Windows, twin.Condition, cerr), Case: c, Rank: rank})
		}
	}()
	for step, wi := range c.Windows {
		w := c18windows[wi]
		var serr error
		if p, st := try(func() { serr = stmt.SetTimeRange(w.start, w.end) }); p != nil {
			return append(out, ev.Finding{Sig: "panic:SetTimeRange", Witness: wit, Detail: fmt.Sprint(p) + st, Case: c, Rank: rank}), hashes
		}
		if serr != nil {
			return append(out, ev.Finding{Sig: "error:SetTimeRange:" + ev.SigSafe(timeForm), Witness: wit, Detail: fmt.Sprintf("call %d failed: %v", step+1, serr), Case: c, Rank: rank}), hashes
		}
		hashes = append(hashes, astx.Hash(astx.Full, stmt))
		if step == 0 && twin != nil {
			// a second statement with the same condition is given the same window, once; the first then moves on
			if p, _ := try(func() { serr = twin.SetTimeRange(w.start, w.end) }); p != nil || serr != nil {
				twin = nil
			}
		}
		cond := stmt.Condition
		// I1: the splitter sees exactly the last window
		resid, tr, cerr := influxql.ConditionExpr(cond, valuer)
		_ = resid
		if cerr != nil {
			out = append(out, ev.Finding{Sig: "condition-unusable:" + ev.SigSafe(timeForm), Witness: wit, Detail: fmt.Sprintf("after call %d the condition %s is rejected by ConditionExpr: %v", step+1, cond, cerr), Case: c, Rank: rank})
			return out, hashes
		}
		ws, we := w.start.UnixNano(), w.end.UnixNano()-1
		if tr.MinTimeNano() != ws || tr.MaxTimeNano() != we {
			out = append(out, ev.Finding{Sig: "old-bound-survives:" + ev.SigSafe(timeForm), Witness: wit,
				Detail: fmt.Sprintf("after call %d (window [%d,%d]) the condition %s gives range [%d,%d]", step+1, ws, we, cond, tr.MinTimeNano(), tr.MaxTimeNano()), Case: c, Rank: rank})
			return out, hashes
		}
		// I2: the statement selects exactly the window's points satisfying the non-time predicates
		pts := cmPoints(atoms, zl)
		for _, t := range []int64{ws - 1, ws, we, we + 1} {
			for _, h := range []string{"a", "b"} {
				for _, rg := range []string{"x", "y"} {
					for _, v := range []int64{5, 6} {
						pts = append(pts, cmPoint{t, h, rg, v})
					}
				}
			}
		}
		for _, p := range pts {
			want := p.t >= ws && p.t <= we && cmHolds(nonTime, p, zl)
			got, ok := c18sem(cond, p, zl)
			if !ok {
				out = append(out, ev.Finding{Sig: "condition-uninterpretable:" + ev.SigSafe(timeForm), Witness: wit, Detail: fmt.Sprintf("after call %d the condition is %s", step+1, cond), Case: c, Rank: rank})
				return out, hashes
			}
			if got != want {
				out = append(out, ev.Finding{Sig: "selects-wrong-points:" + ev.SigSafe(timeForm), Witness: wit,
					Detail: fmt.Sprintf("after call %d the condition %s is %v at t=%d host=%s region=%s value=%d, expected %v", step+1, cond, got, p.t, p.host, p.region, p.value, want), Case: c, Rank: rank})
				return out, hashes
			}
		}
		// I4: every predicate that is not a time bound is kept as it was written (name, type suffix, operator, value)
		if now := c18predicates(cond); strings.Join(now, "\n") != strings.Join(preds0, "\n") {
			out = append(out, ev.Finding{Sig: "predicate-not-kept:" + ev.SigSafe(timeForm), Witness: wit,
				Detail: fmt.Sprintf("after call %d the non-time predicates are %q, the statement was written with %q", step+1, now, preds0), Case: c, Rank: rank})
			return out, hashes
		}
		// I3: the condition does not grow from call to call
		n := countNodes(cond)
		if prevNodes >= 0 && n > prevNodes {
			out = append(out, ev.Finding{Sig: "condition-grows:" + ev.SigSafe(timeForm), Witness: wit, Detail: fmt.Sprintf("%d nodes after call %d, %d after call %d: %s", prevNodes, step, n, step+1, cond), Case: c, Rank: rank})
			return out, hashes
		}
		prevNodes = n
	}
	return out, hashes
}

func init() {
	register(&Check{ID: "C18", Run: c18run, Replay: func(raw json.RawMessage) []ev.Finding {
		var c c18Case
		if json.Unmarshal(raw, &c) != nil {
			return nil
		}
		f, _ := c18eval(c)
		return f
	}})
}

func c18run(r *ev.Run) {
	th := thorough(r)
	n := len(c18tab)
	maxSeq := 2
	if th {
		maxSeq = 3
	}
	// all window sequences up to maxSeq
	var seqs [][]int
	var rec func(cur []int)
	rec = func(cur []int) {
		if len(cur) == maxSeq { // invariants are checked after every call, so a maximal history covers its prefixes
			seqs = append(seqs, append([]int{}, cur...))
			return
		}
		for w := 0; w < c18ordinaryWindows; w++ {
			rec(append(cur, w))
		}
	}
	rec(nil)
	if maxSeq < 3 {
		// the same window three times in a row (a shortcut for "nothing changed" has to be right too)
		for w := 0; w < c18ordinaryWindows; w++ {
			seqs = append(seqs, []int{w, w, w})
		}
	}
	// sequences with an empty window first, last and in the middle
	var emptySeqs [][]int
	for z := c18ordinaryWindows; z < len(c18windows); z++ {
		emptySeqs = append(emptySeqs, []int{z}, []int{0, z}, []int{z, 1}, []int{2, z, 0})
	}
	bare := n - 1
	explore := func(atoms []int, shape, zone int) {
		// BFS over histories; every history is replayed on a fresh statement. A history whose final state was
		// already reached is still checked (the invariants are per path) but not extended further.
		seen := map[uint64]bool{}
		for _, s := range seqs {
			c := c18Case{Atoms: atoms, Shape: shape, Zone: zone, Windows: s, Thorough: th}
			k := r.Eval()
			fs, hs := c18eval(c)
			r.Trans(int64(len(s)))
			for _, h := range hs {
				if !seen[h] {
					seen[h] = true
				}
				r.State(h, true)
			}
			r.Sample(k, func() interface{} {
				var as []cmAtom
				for _, i := range atoms {
					as = append(as, c18tab[i])
				}
				t := "SELECT f FROM m"
				if len(as) > 0 {
					t += " WHERE " + cmRender(cmShapes[len(as)][shape], as)
				}
				return fmt.Sprintf("%s ; windows %v ; zone %s", t, s, cmZoneName(cmZones[zone]))
			})
			for _, f := range fs {
				r.Report(f)
			}
		}
	}
	for z := range cmZones {
		z := z
		explore(nil, 0, z)
		saved := seqs
		seqs = emptySeqs
		explore(nil, 0, z)
		for i := 0; i < n; i++ {
			explore([]int{i}, 0, z)
		}
		seqs = saved
		parallelFor(n, func(i int) {
			for s := range cmShapes[1] {
				explore([]int{i}, s, z)
			}
			if i == bare {
				return
			}
			for j := 0; j < n-1; j++ {
				for s := range cmShapes[2] {
					explore([]int{i, j}, s, z)
				}
			}
		})
		// conditions that already end in what an earlier call leaves behind (time >= 'string' AND time < 'string') with
		// one more atom in front: a shortcut that recognises its own output must still strip the bound in front of it
		{
			var lower, upper []int
			for i, a := range c18tab[:n-1] {
				if a.isTime && !a.right && !a.upper && strings.HasPrefix(a.text, "time ") && strings.Contains(a.text, "'") {
					switch a.op {
					case ">=":
						lower = append(lower, i)
					case "<":
						upper = append(upper, i)
					}
				}
			}
			parallelFor(n-1, func(i int) {
				for _, lo := range lower {
					for _, up := range upper {
						for s := range cmShapes[3] {
							explore([]int{i, lo, up}, s, z)
						}
					}
				}
			})
			r.Set("window_shaped_tails", len(lower)*len(upper))
		}
		if th {
			var core []int
			for i, a := range c18tab[:n-1] {
				if !a.isTime || i%9 == 0 || a.upper {
					core = append(core, i)
				}
			}
			parallelFor(len(core), func(a int) {
				for _, b := range core {
					for _, cc := range core {
						for s := range cmShapes[3] {
							explore([]int{core[a], b, cc}, s, z)
						}
					}
				}
			})
			r.Set("three_atom_alphabet", len(core))
		}
	}
	r.Set("atom_alphabet", n)
	r.Set("windows", len(c18windows))
	r.Set("window_sequences", len(seqs))
	r.Set("max_sequence_length", maxSeq)
	r.Rule = fmt.Sprintf("roots = SELECT with no WHERE or a condition of 1-2 (thorough 3) atoms from the condition model (time on either side, 12 literal forms, upper-case TIME, tag/field predicates, parenthesised and bare OR); histories = every sequence of <=%d SetTimeRange calls over 3 windows, replayed on a fresh statement; invariants checked after every call. states = distinct statements reached (canonical hash); every history is non-trivial", maxSeq)
	r.Assumptions = []string{"the semantic oracle interprets time comparisons in the resulting condition with its own evaluator (RFC3339/date strings, integers, durations, now() ± d)"}
}
