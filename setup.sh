#!/bin/sh
# Builds the framework once from files on disk only (warms the Go build cache, including the -race variant of the
# standard library used by the C17 race pass). Nothing is fetched.
export GOFLAGS=-mod=mod GOPROXY=off GOSUMDB=off GOTOOLCHAIN=local
set -e
ROOT=$(cd "$(dirname "$0")" && pwd)
mkdir -p $ROOT/.build $ROOT/evidence $ROOT/replays
cp /repo/go.sum $ROOT/harness/go.sum
cd $ROOT/harness
go build -tags verif -o $ROOT/.build/vcheck.setup ./cmd/vcheck
rm -f $ROOT/.build/vcheck.setup
go build -race -tags verif -o $ROOT/.build/vrace.setup ./cmd/vrace
rm -f $ROOT/.build/vrace.setup
cd $ROOT/instr
go build -o $ROOT/.build/vinstr.setup .
SCR=$(mktemp -d /tmp/verif-setup.XXXXXX)
$ROOT/.build/vinstr.setup -dir /repo -out $SCR/ov > /dev/null
(cd $ROOT/harness && go build -tags "verif c17" -overlay $SCR/ov/overlay.json -o $SCR/vsched ./cmd/vsched)
rm -rf $SCR $ROOT/.build/vinstr.setup
echo setup ok
