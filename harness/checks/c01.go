package checks

import (
	"encoding/json"
	"fmt"
	"strings"
	"sync"
	"time"

	"github.com/influxdata/influxql"

	"verif/harness/astx"
	"verif/harness/ev"
	"verif/harness/gram"
	"verif/harness/xplore"
)

// C01 — the parser accepts the grammar and builds the AST the text denotes.

type vecCase struct {
	Vector []int `json:"vector"`
}

// c01body generates one statement from the choices, renders it and checks the parse.
func c01body(c *xplore.Ctx) (text string, form string, fs []ev.Finding, skipped bool) {
	g := gram.New(c)
	spec := gram.Statement(g)
	if g.InvalidWhy != "" {
		return "", spec.Form, nil, true
	}
	text = gram.Render(c, spec.Toks)
	fs = c01check(spec, text, c.Vector(), c.TotalCost())
	if fs == nil {
		fs = c01sequence(spec, text, c.Vector(), c.TotalCost())
	}
	return text, spec.Form, fs, false
}

// c01sibling renders the statement of the same choice vector with every name, string and regex renamed.
func c01sibling(vec []int) (text string, ok bool) {
	ok = true
	defer func() {
		if recover() != nil {
			ok = false
		}
	}()
	xplore.Replay(func(x *xplore.Ctx) {
		g := gram.New(x)
		g.Hook = func(idx int, k gram.Kind, role, def string) (string, string) {
			switch k {
			case gram.IDENT, gram.STR:
				return def + "_s", ""
			}
			return def, ""
		}
		spec := gram.Statement(g)
		if g.InvalidWhy != "" {
			ok = false
			return
		}
		text = gram.Render(x, spec.Toks)
	}, vec)
	return text, ok
}

// c01sequence: one Parser reads the statement and then a sibling of the same shape with other names (and the
// reverse). What the first call returned must still be what its text denotes after the second call, and the second
// result must be what a fresh parser returns: nothing of one statement may live in state the parser reuses.
func c01sequence(spec *gram.Spec, text string, vec []int, rank int) []ev.Finding {
	sib, ok := c01sibling(vec)
	if !ok || sib == text {
		return nil
	}
	alone, err := influxql.ParseStatement(sib)
	if err != nil {
		return nil
	}
	cs := vecCase{Vector: vec}
	form := ev.SigSafe(spec.Form)
	for order := 0; order < 2; order++ {
		qt := text + ";" + sib
		want := []influxql.Statement{spec.Stmt, alone}
		if order == 1 {
			qt = sib + "; " + text
			want = []influxql.Statement{alone, spec.Stmt}
		}
		var q *influxql.Query
		if p, st := try(func() { q, err = influxql.ParseQuery(qt) }); p != nil {
			return []ev.Finding{{Sig: "panic:ParseQuery", Witness: qt, Detail: fmt.Sprint(p) + "\n" + st, Case: cs, Rank: rank}}
		}
		if err != nil || len(q.Statements) != 2 {
			return []ev.Finding{{Sig: "sequence-rejected:" + form, Witness: qt, Detail: fmt.Sprintf("both statements parse alone; together: %v", err), Case: cs, Rank: rank}}
		}
		for k := range want {
			if path, a, b := astx.Diff(astx.Denoted, want[k], q.Statements[k]); path != "" {
				return []ev.Finding{{Sig: "parser-state-carried:" + form + ":" + astx.GenericPath(path), Witness: qt,
					Detail: fmt.Sprintf("statement %d read by a parser that also read the other one: at %s want %s, got %s", k, path, a, b), Case: cs, Rank: rank}}
			}
		}
	}
	return nil
}

func c01check(spec *gram.Spec, text string, vec []int, rank int) []ev.Finding {
	cs := vecCase{Vector: vec}
	var got influxql.Statement
	var err error
	if p, st := try(func() { got, err = influxql.ParseStatement(text) }); p != nil {
		return []ev.Finding{{Sig: "panic:ParseStatement", Witness: text, Detail: fmt.Sprint(p) + "\n" + st, Case: cs, Rank: rank}}
	}
	form := ev.SigSafe(spec.Form)
	if err != nil {
		return []ev.Finding{{Sig: "rejected:" + form + ":" + ev.SigSafe(errClass(err.Error())), Witness: text, Detail: "ParseStatement failed: " + err.Error(), Case: cs, Rank: rank}}
	}
	if path, a, b := astx.Diff(astx.Denoted, spec.Stmt, got); path != "" {
		return []ev.Finding{{Sig: "wrong-ast:" + form + ":" + astx.GenericPath(path) + ":" + astx.ValueClass(a) + "→" + astx.ValueClass(b), Witness: text,
			Detail: fmt.Sprintf("at %s the text denotes %s but the parser built %s", path, a, b), Case: cs, Rank: rank}}
	}
	// ParseQuery must agree for a single statement
	q, err := influxql.ParseQuery(text)
	if err != nil || len(q.Statements) != 1 || !astx.Equal(astx.Denoted, spec.Stmt, q.Statements[0]) {
		return []ev.Finding{{Sig: "parsequery-differs:" + form, Witness: text, Detail: fmt.Sprintf("ParseQuery: %v", err), Case: cs, Rank: rank}}
	}
	// query = statement { ";" statement }: the statement is derivable in front of another one as well, and ends where
	// it ends alone (a statement that reads one token too many takes the separator with it). Texts that end in a
	// line comment are left out: there the semicolon would be part of the comment.
	if !strings.Contains(text, "--") {
		q2, err := influxql.ParseQuery(text + "; SHOW DATABASES")
		bad := ""
		switch {
		case err != nil:
			bad = err.Error()
		case len(q2.Statements) != 2:
			bad = fmt.Sprintf("%d statements", len(q2.Statements))
		case !astx.Equal(astx.Denoted, spec.Stmt, q2.Statements[0]):
			bad = "the first statement differs from the statement alone"
		default:
			if _, ok := q2.Statements[1].(*influxql.ShowDatabasesStatement); !ok {
				bad = fmt.Sprintf("the second statement is a %T", q2.Statements[1])
			}
		}
		if bad != "" {
			return []ev.Finding{{Sig: "not-accepted-in-front-of-another-statement:" + form, Witness: text + "; SHOW DATABASES", Detail: "ParseQuery: " + bad, Case: cs, Rank: rank}}
		}
	}
	return nil
}

// c01resample: the one rule of the grammar that compares values of two clauses. CREATE CONTINUOUS QUERY … RESAMPLE
// [EVERY e] [FOR f]: at least one of the two, and f, when given, covers the larger of e and the GROUP BY time()
// interval. Every combination over a small ladder of durations around one interval, exactly at the boundary too.
type c01rsCase struct {
	Every, For, Interval string
}

var c01rsDurs = []string{"", "5m", "10m", "10m1s", "20m", "9m59s", "600s"}

func c01resample(c c01rsCase) []ev.Finding {
	d := func(s string) time.Duration {
		if s == "" {
			return 0
		}
		v, _ := gram.ParseDur(s)
		return v
	}
	text := "CREATE CONTINUOUS QUERY cq ON db0 RESAMPLE"
	if c.Every != "" {
		text += " EVERY " + c.Every
	}
	if c.For != "" {
		text += " FOR " + c.For
	}
	if c.Interval != "" {
		text += " BEGIN SELECT mean(x) INTO t FROM m GROUP BY time(" + c.Interval + ") END"
	} else {
		text += " BEGIN SELECT x INTO t FROM m END"
	}
	e, f, iv := d(c.Every), d(c.For), d(c.Interval)
	valid := e != 0 || f != 0
	if f != 0 {
		need := iv
		if e > need {
			need = e
		}
		if f < need {
			valid = false
		}
	}
	st, err := influxql.ParseStatement(text)
	switch {
	case valid && err != nil:
		return []ev.Finding{{Sig: "rejected:CREATE_CONTINUOUS_QUERY:resample-rule", Witness: text, Detail: "FOR covers the larger of EVERY and the interval, yet: " + err.Error(), Case: c}}
	case valid:
		cq, ok := st.(*influxql.CreateContinuousQueryStatement)
		if !ok || cq.ResampleEvery != e || cq.ResampleFor != f {
			return []ev.Finding{{Sig: "wrong-ast:CREATE_CONTINUOUS_QUERY:resample-values", Witness: text, Detail: fmt.Sprintf("parsed %v", st), Case: c}}
		}
	case err == nil:
		return []ev.Finding{{Sig: "accepted-although-not-derivable:CREATE_CONTINUOUS_QUERY:resample-rule", Witness: text, Detail: "FOR is shorter than the larger of EVERY and the interval (or neither is given)", Case: c}}
	}
	return nil
}

// errClass strips positions and quoted input from an error message so that it names a class.
func errClass(msg string) string {
	if i := strings.Index(msg, " at line "); i > 0 {
		msg = msg[:i]
	}
	if strings.HasPrefix(msg, "found ") {
		if i := strings.Index(msg, ", expected "); i > 0 {
			msg = "found X" + msg[i:]
		}
	}
	return msg
}

func init() {
	register(&Check{ID: "C01", Run: c01run, Replay: func(raw json.RawMessage) []ev.Finding {
		var probe map[string]json.RawMessage
		if json.Unmarshal(raw, &probe) == nil {
			if _, ok := probe["Interval"]; ok {
				var rc c01rsCase
				json.Unmarshal(raw, &rc)
				return c01resample(rc)
			}
		}
		var c vecCase
		if json.Unmarshal(raw, &c) != nil {
			return nil
		}
		var out []ev.Finding
		xplore.Replay(func(x *xplore.Ctx) { _, _, out, _ = c01body(x) }, c.Vector)
		return out
	}})
}

type boundSet struct {
	name   string
	bounds []int // structural, spelling, value
}

func c01run(r *ev.Run) {
	sets := []boundSet{{"struct<=2,value<=1", []int{2, 0, 1}}, {"struct<=2,spell<=1", []int{2, 1, 0}}, {"struct<=3", []int{3, 0, 0}}, {"struct<=1,spell<=1,value<=1", []int{1, 1, 1}}}
	if thorough(r) {
		sets = []boundSet{{"struct<=3,value<=1", []int{3, 0, 1}}, {"struct<=2,spell<=1,value<=1", []int{2, 1, 1}}, {"struct<=1,spell<=2", []int{1, 2, 0}}, {"struct<=2,value<=2", []int{2, 0, 2}}}
	}
	runGrammar(r, sets, func(c *xplore.Ctx) (string, string, []ev.Finding, bool) { return c01body(c) })
	nrs := 0
	for _, e := range c01rsDurs {
		for _, f := range c01rsDurs {
			for _, iv := range []string{"", "10m", "600s", "1m"} {
				c := c01rsCase{Every: e, For: f, Interval: iv}
				r.Eval()
				r.State(astx.HashString(fmt.Sprint("RS|", c)), true)
				nrs++
				for _, fd := range c01resample(c) {
					r.Report(fd)
				}
			}
		}
	}
	r.Set("resample_rule_cases", nrs)
	r.Rule = "statements generated from the grammar model (41 statement forms; every optional clause, list length, alternative form, value and spelling is a choice) within the stated deviation bounds from the minimal statement of each form; state = distinct statement text; non-trivial = text accepted by the parser and compared with the intended AST; every accepted statement is parsed once more in front of `; SHOW DATABASES`; plus every combination of EVERY, FOR and interval over a ladder of 7 durations for the RESAMPLE rule of continuous queries"
}

// runGrammar explores the grammar under each bound set with a body returning (text, form, findings, skipped).
func runGrammar(r *ev.Run, sets []boundSet, body func(c *xplore.Ctx) (string, string, []ev.Finding, bool)) {
	forms := map[string]int64{}
	var fm sync.Mutex
	var skipped int64
	var names []string
	for _, bs := range sets {
		ex := &xplore.Explorer{Bounds: bs.bounds, Workers: r.Workers, Deadline: deadlineFor(r.Tier), Body: func(c *xplore.Ctx) {
			text, form, fs, skip := body(c)
			if skip {
				fm.Lock()
				skipped++
				fm.Unlock()
				return
			}
			n := r.Eval()
			accepted := true
			for _, f := range fs {
				if strings.HasPrefix(f.Sig, "rejected:") || strings.HasPrefix(f.Sig, "panic:") {
					accepted = false
				}
				r.Report(f)
			}
			if r.State(astx.HashString(text), accepted) {
				fm.Lock()
				forms[form]++
				fm.Unlock()
			}
			r.Sample(n, func() interface{} { return text })
		}}
		ex.Run()
		r.Trans(ex.Transitions)
		if ex.Capped {
			r.Exhaustive = false
		}
		names = append(names, fmt.Sprintf("%s: executions=%d by_deviations=%v", bs.name, ex.Execs, trimZeros(ex.ByCost[:])))
	}
	r.Set("bound_sets", names)
	r.Set("statement_forms", len(gram.Forms))
	r.Set("distinct_texts_per_form", forms)
	r.Set("generated_but_outside_grammar", skipped)
}

func trimZeros(a []int64) []int64 {
	n := len(a)
	for n > 0 && a[n-1] == 0 {
		n--
	}
	return a[:n]
}
