package checks

import (
	"encoding/json"
	"fmt"
	"reflect"
	"strings"
	"time"
	"unsafe"

	"github.com/influxdata/influxql"

	"verif/harness/astx"
	"verif/harness/ev"
	"verif/harness/gram"
	"verif/harness/xplore"
)

// C14 — clones are faithful and independent; derived operations leave the receiver alone.

type c14mut struct {
	name string
	run  func(s *influxql.SelectStatement)
}

// pokeAll overwrites every scalar leaf reachable from x (strings, ints, bools, floats), leaving the shape intact.
func pokeAll(x interface{}) {
	seen := map[uintptr]bool{}
	var walk func(v reflect.Value)
	walk = func(v reflect.Value) {
		if !v.IsValid() {
			return
		}
		t := v.Type()
		if t == reflect.TypeOf((*time.Location)(nil)) || t.String() == "*regexp.Regexp" || t == reflect.TypeOf(time.Time{}) {
			return
		}
		switch v.Kind() {
		case reflect.Ptr:
			if v.IsNil() || seen[v.Pointer()] {
				return
			}
			seen[v.Pointer()] = true
			walk(v.Elem())
		case reflect.Interface:
			if !v.IsNil() {
				e := v.Elem()
				if e.Kind() == reflect.Ptr {
					walk(e)
				}
			}
		case reflect.Struct:
			for i := 0; i < v.NumField(); i++ {
				f := v.Field(i)
				if t.Field(i).PkgPath != "" {
					if !f.CanAddr() {
						continue
					}
					f = reflect.NewAt(f.Type(), unsafe.Pointer(f.UnsafeAddr())).Elem()
				}
				walk(f)
			}
		case reflect.Slice:
			for i := 0; i < v.Len(); i++ {
				walk(v.Index(i))
			}
		case reflect.String:
			if v.CanSet() {
				v.SetString(v.String() + "~poked")
			}
		case reflect.Bool:
			if v.CanSet() {
				v.SetBool(!v.Bool())
			}
		case reflect.Int, reflect.Int64, reflect.Int32:
			if v.CanSet() {
				v.SetInt(v.Int() + 17)
			}
		case reflect.Uint64, reflect.Uint:
			if v.CanSet() {
				v.SetUint(v.Uint() + 17)
			}
		case reflect.Float64:
			if v.CanSet() {
				v.SetFloat(v.Float() + 17)
			}
		}
	}
	walk(reflect.ValueOf(x))
}

// shrinkAll truncates every slice reachable from the statement's own fields and appends to the field list.
func shrinkAll(s *influxql.SelectStatement) {
	if len(s.Fields) > 0 {
		s.Fields[0] = &influxql.Field{Expr: &influxql.VarRef{Val: "replaced"}}
		s.Fields = append(s.Fields, &influxql.Field{Expr: &influxql.VarRef{Val: "appended"}})
	}
	if len(s.Dimensions) > 0 {
		s.Dimensions[0] = &influxql.Dimension{Expr: &influxql.VarRef{Val: "replaced"}}
		s.Dimensions = s.Dimensions[:len(s.Dimensions)-1]
	}
	if len(s.Sources) > 0 {
		s.Sources[0] = &influxql.Measurement{Name: "replaced"}
	}
	if len(s.SortFields) > 0 {
		s.SortFields[0] = &influxql.SortField{Name: "replaced"}
	}
	if s.Target != nil {
		s.Target.Measurement = &influxql.Measurement{Name: "replaced"}
	}
	influxql.WalkFunc(s.Fields, func(n influxql.Node) {
		if c, ok := n.(*influxql.Call); ok && len(c.Args) > 0 {
			c.Args[0] = &influxql.VarRef{Val: "replaced"}
		}
	})
}

var c14muts = []c14mut{
	{"RewriteRegexConditions", func(s *influxql.SelectStatement) { s.RewriteRegexConditions() }},
	{"RewriteDistinct", func(s *influxql.SelectStatement) { s.RewriteDistinct() }},
	{"RewriteTimeFields", func(s *influxql.SelectStatement) { s.RewriteTimeFields() }},
	{"SetTimeRange", func(s *influxql.SelectStatement) { _ = s.SetTimeRange(c13clock, c13clock.Add(time.Hour)) }},
	{"Rewrite(renaming)", func(s *influxql.SelectStatement) { influxql.Rewrite(renamer{}, s) }},
	{"RewriteExpr(renaming condition)", func(s *influxql.SelectStatement) {
		s.Condition = influxql.RewriteExpr(s.Condition, func(e influxql.Expr) influxql.Expr {
			if v, ok := e.(*influxql.VarRef); ok {
				v.Val += "_m" // in place
			}
			return e
		})
	}},
	{"poke every scalar", func(s *influxql.SelectStatement) { pokeAll(s) }},
	{"replace/truncate/append slice elements", func(s *influxql.SelectStatement) { shrinkAll(s) }},
	{"GroupByInterval (memo)", func(s *influxql.SelectStatement) { _, _ = s.GroupByInterval() }},
	{"append to every list", func(s *influxql.SelectStatement) {
		s.Fields = append(s.Fields, &influxql.Field{Expr: &influxql.VarRef{Val: "appended"}})
		s.Dimensions = append(s.Dimensions, &influxql.Dimension{Expr: &influxql.VarRef{Val: "appended"}})
		s.Sources = append(s.Sources, &influxql.Measurement{Name: "appended"})
		s.SortFields = append(s.SortFields, &influxql.SortField{Name: "appended"})
	}},
	{"truncate every list to empty", func(s *influxql.SelectStatement) {
		s.Fields, s.Dimensions, s.Sources, s.SortFields = s.Fields[:0], s.Dimensions[:0], s.Sources[:0], s.SortFields[:0]
	}},
	{"clone again", nil}, // pseudo-step: the clone is replaced by a fresh Clone() of the original as it is now
}

type c14ro struct {
	name string
	run  func(s *influxql.SelectStatement)
}

// c14fieldCallMapper: a field mapper that also types calls.
type c14fieldCallMapper struct{ influxql.FieldMapper }

func (m c14fieldCallMapper) CallType(name string, args []influxql.DataType) (influxql.DataType, error) {
	return c13callTyper{m.FieldMapper}.CallType(name, args)
}

var c14readonly = []c14ro{
	{"String", func(s *influxql.SelectStatement) { _ = s.String() }},
	{"Reduce", func(s *influxql.SelectStatement) { _ = s.Reduce(&influxql.NowValuer{Now: c13clock}) }},
	{"RewriteFields", func(s *influxql.SelectStatement) {
		_, _ = s.RewriteFields(c13schemas[1])
		_, _ = s.RewriteFields(c13schemas[2])
	}},
	{"ColumnNames", func(s *influxql.SelectStatement) { _ = s.ColumnNames() }},
	{"RequiredPrivileges", func(s *influxql.SelectStatement) { _, _ = s.RequiredPrivileges() }},
	{"Eval/EvalBool/EvalType", func(s *influxql.SelectStatement) {
		_ = influxql.EvalBool(s.Condition, c13point())
		for _, f := range s.Fields {
			_ = influxql.Eval(f.Expr, c13point())
			_ = influxql.EvalType(f.Expr, s.Sources, c13schemas[1])
			// with a mapper that also types calls (another branch of the type evaluation)
			_ = influxql.EvalType(f.Expr, s.Sources, c13callTyper{c13schemas[1]})
		}
		_, _, _ = influxql.FieldDimensions(influxql.Sources{&influxql.SubQuery{Statement: s}}, c14fieldCallMapper{c13schemas[1]})
	}},
	{"names", func(s *influxql.SelectStatement) {
		_ = s.Fields.Names()
		_ = s.Fields.AliasNames()
		_ = influxql.ExprNames(s.Condition)
		_ = s.Sources.Measurements()
		_, _ = s.Dimensions.Normalize()
		s.FieldExprByName("a")
		_ = s.HasWildcard()
		_, _, _ = influxql.ConditionExpr(s.Condition, &influxql.NowValuer{Now: c13clock})
	}},
	{"Reduce(expression of the statement)", func(s *influxql.SelectStatement) {
		// the package-level functions take the statement's own nodes, not a copy
		for _, v := range []influxql.Valuer{nil, &influxql.NowValuer{Now: c13clock}, influxql.MapValuer(c13point())} {
			for _, f := range s.Fields {
				_ = influxql.Reduce(f.Expr, v)
			}
			for _, d := range s.Dimensions {
				_ = influxql.Reduce(d.Expr, v)
			}
			if s.Condition != nil {
				_ = influxql.Reduce(s.Condition, v)
			}
		}
		_, _, _ = influxql.ConditionExpr(s.Condition, nil)
		_, _, _ = influxql.ConditionExpr(s.Condition, &influxql.NowValuer{Now: c13clock})
		_, _, _ = influxql.ConditionExpr(s.Condition, &influxql.NowValuer{Now: c13clock})
	}},
	{"Clone", func(s *influxql.SelectStatement) { _ = s.Clone() }},
	{"Walk", func(s *influxql.SelectStatement) { influxql.WalkFunc(s, func(influxql.Node) {}) }},
}

// c14Case: a statement text and a history of (mutator index, side) steps; side 0 = original, 1 = clone.
type c14Case struct {
	Text  string   `json:"text"`
	Steps [][2]int `json:"steps"`
}

func c14diffSig(prefix string, before, after string) (string, string) {
	la, lb := strings.Split(before, "\n"), strings.Split(after, "\n")
	for i := 0; i < len(la) || i < len(lb); i++ {
		var a, b string
		if i < len(la) {
			a = la[i]
		}
		if i < len(lb) {
			b = lb[i]
		}
		if a != b {
			path := a
			if k := strings.Index(a, " = "); k > 0 {
				path = a[:k]
			} else if k := strings.Index(b, " = "); k > 0 {
				path = b[:k]
			}
			return prefix + ":" + astx.GenericPath(path), fmt.Sprintf("%q became %q", a, b)
		}
	}
	return prefix, ""
}

func c14eval(c c14Case) (fs []ev.Finding, states []uint64) {
	stmt, err := influxql.ParseStatement(c.Text)
	if err != nil {
		return nil, nil
	}
	orig, ok := stmt.(*influxql.SelectStatement)
	if !ok {
		return nil, nil
	}
	rank := len(c.Text) + 1000*len(c.Steps)
	wit := fmt.Sprintf("%s ; history %v", c.Text, c.stepNames())
	var clone *influxql.SelectStatement
	pristine := astx.Dump(astx.Full, orig)
	if p, st := try(func() { clone = orig.Clone() }); p != nil {
		return []ev.Finding{{Sig: "panic:Clone", Witness: wit, Detail: fmt.Sprint(p) + st, Case: c, Rank: rank}}, nil
	}
	// the very first Clone of a freshly parsed statement must leave it as parsed (memo fields included)
	if now := astx.Dump(astx.Full, orig); now != pristine {
		sig, d := c14diffSig("receiver-changed:first-Clone", pristine, now)
		fs = append(fs, ev.Finding{Sig: sig, Witness: c.Text, Detail: "Clone changed the statement it was called on: " + d, Case: c14Case{Text: c.Text}, Rank: len(c.Text)})
	}
	if path, a, b := astx.Diff(astx.Full, orig, clone); path != "" {
		fs = append(fs, ev.Finding{Sig: "clone-differs:" + astx.GenericPath(path) + ":" + astx.ValueClass(a) + "→" + astx.ValueClass(b), Witness: c.Text,
			Detail: fmt.Sprintf("Clone differs from the original at %s: %s vs %s", path, a, b), Case: c14Case{Text: c.Text}, Rank: len(c.Text)})
	}
	if pa, pb, shared := astx.Shared(orig, clone); shared {
		fs = append(fs, ev.Finding{Sig: "clone-shares-node:" + astx.GenericPath(pa), Witness: c.Text,
			Detail: fmt.Sprintf("original %s and clone %s are the same mutable object", pa, pb), Case: c14Case{Text: c.Text}, Rank: len(c.Text)})
	}
	sides := []*influxql.SelectStatement{orig, clone}
	states = append(states, astx.HashString(astx.Dump(astx.Full, orig)+"\x00"+astx.Dump(astx.Full, clone)))
	for i, st := range c.Steps {
		m := c14muts[st[0]]
		if m.run == nil { // clone again, in the state reached
			if st[1] == 1 {
				continue // only meaningful once per position
			}
			var nc *influxql.SelectStatement
			if p, _ := try(func() { nc = sides[0].Clone() }); p != nil {
				return fs, states
			}
			if path, a, b := astx.Diff(astx.Full, sides[0], nc); path != "" {
				fs = append(fs, ev.Finding{Sig: "clone-differs:" + astx.GenericPath(path) + ":" + astx.ValueClass(a) + "→" + astx.ValueClass(b), Witness: wit, Detail: fmt.Sprintf("Clone after %v differs at %s: %s vs %s", c.stepNames()[:i], path, a, b), Case: c, Rank: rank})
			}
			if pa, pb, shared := astx.Shared(sides[0], nc); shared {
				fs = append(fs, ev.Finding{Sig: "clone-shares-node:" + astx.GenericPath(pa), Witness: wit, Detail: fmt.Sprintf("after %v original %s and clone %s are the same mutable object", c.stepNames()[:i], pa, pb), Case: c, Rank: rank})
			}
			sides[1] = nc
			clone = nc
			continue
		}
		target, other := sides[st[1]], sides[1-st[1]]
		before := astx.Dump(astx.Full, other)
		if p, stk := try(func() { m.run(target) }); p != nil {
			// totality is C13's; a panic here ends the history
			_ = stk
			return fs, states
		}
		after := astx.Dump(astx.Full, other)
		if before != after {
			who := []string{"original", "clone"}[1-st[1]]
			sig, d := c14diffSig("mutation-leaks:"+ev.SigSafe(m.name), before, after)
			fs = append(fs, ev.Finding{Sig: sig, Witness: wit, Detail: fmt.Sprintf("step %d (%s on the %s) changed the %s: %s", i+1, m.name, []string{"original", "clone"}[st[1]], who, d), Case: c, Rank: rank})
			return fs, states
		}
		states = append(states, astx.HashString(astx.Dump(astx.Full, orig)+"\x00"+after+fmt.Sprint(st[1])))
	}
	// nothing mutable may be reachable from two statements: the original and its clone after the history, and the
	// original and an independently parsed twin taken through the same library rewrites (a node handed out from
	// package-level state would be in both)
	if pa, pb, shared := astx.Shared(sides[0], sides[1]); shared && len(c.Steps) > 0 {
		fs = append(fs, ev.Finding{Sig: "shared-after-history:" + astx.GenericPath(pa), Witness: wit, Detail: fmt.Sprintf("after %v original %s and clone %s are the same mutable object", c.stepNames(), pa, pb), Case: c, Rank: rank})
	}
	if len(c.Steps) > 0 {
		if ts, err := influxql.ParseStatement(c.Text); err == nil {
			twin := ts.(*influxql.SelectStatement)
			ok := true
			for _, st := range c.Steps {
				m := c14muts[st[0]]
				if m.run == nil || st[1] != 0 {
					continue
				}
				if p, _ := try(func() { m.run(twin) }); p != nil {
					ok = false
					break
				}
			}
			if ok {
				if pa, pb, shared := astx.Shared(sides[0], twin); shared {
					fs = append(fs, ev.Finding{Sig: "shared-with-independent-statement:" + astx.GenericPath(pa), Witness: wit, Detail: fmt.Sprintf("after %v on each, two independently parsed statements reach the same mutable object: %s and %s", c.stepNames(), pa, pb), Case: c, Rank: rank})
				}
			}
		}
	}
	// read-only operations leave their receiver alone (checked in the state reached)
	for _, side := range sides {
		for _, ro := range c14readonly {
			before := astx.Dump(astx.Full, side)
			if p, _ := try(func() { ro.run(side) }); p != nil {
				continue
			}
			after := astx.Dump(astx.Full, side)
			if before != after {
				sig, d := c14diffSig("receiver-changed:"+ev.SigSafe(ro.name), before, after)
				fs = append(fs, ev.Finding{Sig: sig, Witness: wit, Detail: fmt.Sprintf("%s changed its receiver: %s", ro.name, d), Case: c, Rank: rank})
			}
		}
	}
	return fs, states
}

func (c c14Case) stepNames() []string {
	var out []string
	for _, s := range c.Steps {
		out = append(out, fmt.Sprintf("%s@%s", c14muts[s[0]].name, []string{"orig", "clone"}[s[1]]))
	}
	return out
}

// c14exprEval: CloneExpr on an expression.
func c14exprEval(text string) []ev.Finding {
	e, err := influxql.ParseExpr(text)
	if err != nil {
		return nil
	}
	cs := map[string]string{"expr": text}
	var c influxql.Expr
	if p, st := try(func() { c = influxql.CloneExpr(e) }); p != nil {
		return []ev.Finding{{Sig: "panic:CloneExpr", Witness: text, Detail: fmt.Sprint(p) + st, Case: cs}}
	}
	var fs []ev.Finding
	if path, a, b := astx.Diff(astx.Full, e, c); path != "" {
		fs = append(fs, ev.Finding{Sig: "cloneexpr-differs:" + astx.GenericPath(path), Witness: text, Detail: fmt.Sprintf("%s: %s vs %s", path, a, b), Case: cs})
	}
	if pa, _, shared := astx.Shared(e, c); shared {
		fs = append(fs, ev.Finding{Sig: "cloneexpr-shares-node:" + astx.GenericPath(pa), Witness: text, Detail: pa, Case: cs})
	}
	before := astx.Dump(astx.Full, e)
	pokeAll(c)
	if after := astx.Dump(astx.Full, e); after != before {
		sig, d := c14diffSig("cloneexpr-mutation-leaks", before, after)
		fs = append(fs, ev.Finding{Sig: sig, Witness: text, Detail: d, Case: cs})
	}
	return fs
}

func init() {
	register(&Check{ID: "C14", Run: c14run, Replay: func(raw json.RawMessage) []ev.Finding {
		var probe map[string]json.RawMessage
		if json.Unmarshal(raw, &probe) != nil {
			return nil
		}
		if _, ok := probe["expr"]; ok {
			var m map[string]string
			json.Unmarshal(raw, &m)
			return c14exprEval(m["expr"])
		}
		var c c14Case
		json.Unmarshal(raw, &c)
		fs, _ := c14eval(c)
		return fs
	}})
}

var c14atoms = []string{"time >= '2000-01-01T00:00:00Z'", "time < now() - 1h", "host = 'a'", "a = 1 + 2", "v::field > 1.5", "host =~ /^(a|b)$/", "host =~ /^$/", "now() - 1h < time", "'2000-01-01T00:00:00Z' <= time"}

func c14conditions() []string {
	var out []string
	ops := []string{" AND ", " OR "}
	for _, x := range c14atoms {
		out = append(out, x, "("+x+")")
		for _, y := range c14atoms {
			for _, o := range ops {
				out = append(out, x+o+y, "("+x+o+y+")", "(("+x+o+y+"))")
				for _, z := range c14atoms {
					for _, o2 := range ops {
						out = append(out, "("+x+o+y+")"+o2+z, x+o+"("+y+o2+z+")")
					}
				}
			}
		}
	}
	return out
}

func c14run(r *ev.Run) {
	th := thorough(r)
	// collect the SELECT corpus
	bound := []int{2, 0, 0}
	if th {
		bound = []int{2, 0, 1}
	}
	type root struct {
		text string
		cost int
	}
	var rootsMu = make(chan struct{}, 1)
	_ = rootsMu
	roots := map[string]int{}
	exprs := map[string]bool{}
	var mu syncMutex
	ex := &xplore.Explorer{Bounds: bound, Workers: r.Workers, Deadline: deadlineFor(r.Tier), Body: func(c *xplore.Ctx) {
		g := gram.New(c)
		spec := gram.StatementOf(g, c.Free(2)) // SELECT and EXPLAIN SELECT forms carry every select clause
		if g.InvalidWhy != "" || spec.Form != "SELECT" {
			return
		}
		text := gram.Render(nil, spec.Toks)
		stmt, err := influxql.ParseStatement(text)
		if err != nil {
			return
		}
		mu.Lock()
		if old, ok := roots[text]; !ok || c.Cost(0) < old {
			roots[text] = c.Cost(0)
		}
		if s, ok := stmt.(*influxql.SelectStatement); ok {
			if s.Condition != nil {
				exprs[s.Condition.String()] = true
			}
			for _, f := range s.Fields {
				if _, isRe := f.Expr.(*influxql.RegexLiteral); !isRe {
					exprs[f.Expr.String()] = true
				}
			}
		}
		mu.Unlock()
	}}
	ex.Run()
	// conditions that the evaluation splits and folds: every combination of <=3 atoms (time bounds, now(), a constant
	// sub-expression, plain predicates) under AND/OR with and without a parenthesised group
	nCond := 0
	for _, cnd := range c14conditions() {
		t := "SELECT v FROM m WHERE " + cnd
		if _, err := influxql.ParseStatement(t); err == nil {
			if _, ok := roots[t]; !ok {
				// cost 9 marks the hand-built condition roots: single-step histories in both tiers (there are ~6 000 of them)
				roots[t] = 9
				nCond++
			}
			exprs[cnd] = true
		}
	}
	for _, t := range []string{
		"SELECT percentile(value, 90 + 5) FROM m", "SELECT mean(v) FROM m GROUP BY time(5m, now())", "SELECT f(1 + 2, x) FROM m WHERE g(2 * 3) > 1",
		"SELECT top(v, 1 + 1) FROM m GROUP BY time(1m + 1m)",
		// an interval that has not been asked for yet (the memo of GroupByInterval is part of the statement's state)
		"SELECT mean(v) FROM m GROUP BY time(5m)", "SELECT mean(v) FROM m WHERE time > now() - 1h GROUP BY time(5m, 1m), host fill(none) ORDER BY time ASC",
		"SELECT mean(v) FROM (SELECT max(v) AS v FROM m GROUP BY time(1m), host ORDER BY time) GROUP BY time(10m) ORDER BY time DESC",
		// subqueries whose own clauses fold: a reduction of the outer statement must not re-point or edit them
		"SELECT v FROM (SELECT v FROM m WHERE time > now() - 1h)", "SELECT v FROM (SELECT 1 + 1 AS v FROM m GROUP BY time(1m + 1m, now()))",
		"SELECT v FROM (SELECT v FROM (SELECT percentile(v, 90 + 5) AS v FROM m WHERE a = 1 + 2)), m2 WHERE time > now() - (1h + 1m)",
		"SELECT mean(v) INTO db.rp.t FROM (SELECT v FROM m WHERE time < now()) GROUP BY time(10m, now())", "SELECT v FROM m WHERE time > now() - (1h + 30m)", "SELECT (1 + 2) * v, -(3 - 1) FROM m",
		// field lists the name queries treat specially: an explicit time column in every position, repeated names,
		// tag arguments of top(), a target without a database
		"SELECT time AS ts, v, host FROM m", "SELECT time, v FROM m", "SELECT v, time, w FROM m", "SELECT v, time FROM m", "SELECT time, time AS t, v, time FROM m",
		"SELECT v, v, v_1, v AS v_1 FROM m", "SELECT v FROM /^disk\\/sda[0-9]$/, (SELECT v FROM /a\\/b/) WHERE h =~ /x\\/y/", "SELECT v FROM db1.rp.mem, db0.rp.cpu, (SELECT v FROM db2..m), db0..a", "SELECT count(DISTINCT v), mean(DISTINCT v) + 1, count(distinct(v)) FROM m", "SELECT \"my func\"(v), \"select\"(v, 1) FROM m", "SELECT top(v, host, region, 2), host FROM m", "SELECT mean(v) INTO out FROM db0..m, m2", "SELECT v INTO db1.rp.:MEASUREMENT FROM db0..m",
	} {
		if _, err := influxql.ParseStatement(t); err == nil {
			if _, ok := roots[t]; !ok {
				roots[t] = 9
				nCond++
			}
		}
	}
	r.Set("condition_roots", nCond)
	var texts []string
	for t := range roots {
		texts = append(texts, t)
	}
	sortStrings(texts)
	nm := len(c14muts)
	parallelFor(len(texts), func(i int) {
		t := texts[i]
		cost := roots[t]
		var hist [][][2]int
		hist = append(hist, nil)
		for m := 0; m < nm; m++ {
			for side := 0; side < 2; side++ {
				hist = append(hist, [][2]int{{m, side}})
			}
		}
		if cost <= 1 {
			for m1 := 0; m1 < nm; m1++ {
				for s1 := 0; s1 < 2; s1++ {
					for m2 := 0; m2 < nm; m2++ {
						for s2 := 0; s2 < 2; s2++ {
							hist = append(hist, [][2]int{{m1, s1}, {m2, s2}})
						}
					}
				}
			}
		}
		for _, h := range hist {
			c := c14Case{Text: t, Steps: h}
			k := r.Eval()
			fs, st := c14eval(c)
			r.Trans(int64(len(h)) + 1)
			for _, s := range st {
				r.State(s, true)
			}
			r.Sample(k, func() interface{} { return fmt.Sprintf("%s ; %v", t, c.stepNames()) })
			for _, f := range fs {
				r.Report(f)
			}
		}
	})
	var es []string
	for e := range exprs {
		es = append(es, e)
	}
	sortStrings(es)
	parallelFor(len(es), func(i int) {
		r.Eval()
		r.Trans(1)
		r.State(astx.HashString("expr|"+es[i]), true)
		for _, f := range c14exprEval(es[i]) {
			r.Report(f)
		}
	})
	r.Set("select_roots", len(texts))
	r.Set("expression_roots", len(es))
	r.Set("mutators", nm)
	r.Set("read_only_operations", len(c14readonly))
	r.Rule = "roots = every SELECT the grammar model generates within the bound (targets, subqueries, regex sources, conditions, dimensions, sort fields, fill, tz) and every condition/field expression in them; for each root: Clone must be structurally identical and share no mutable node (address sets); histories = every sequence of <=1 (roots within 1 deviation, and all roots in thorough: <=2) steps, a step being one of 9 mutators (6 in-place rewrites, a reflective poke of every scalar, slice replace/truncate/append, the interval memo) applied to the original or to the clone, replayed on a freshly parsed statement: the side not operated on must keep its full fingerprint; in the state reached 9 read-only operations must leave their receiver's fingerprint (all fields, also unexported) unchanged. states = distinct (original, clone) fingerprints"
}
