package gram

import (
	"strconv"
	"time"

	"github.com/influxdata/influxql"
)

// Form is one statement form of the grammar.
type Form struct {
	Name string
	Gen  func(g *G) influxql.Statement
}

func (g *G) optOn(dst *string) {
	if g.opt() {
		g.kw("ON")
		*dst = g.ident("on.db", "db0")
	}
}

func (g *G) optFrom(dst *influxql.Sources) {
	if g.opt() {
		g.kw("FROM")
		*dst = g.sources(false, true, true)
	}
}

func (g *G) optWhere(dst *influxql.Expr) {
	if g.opt() {
		*dst = g.where()
	}
}

func (g *G) optOrderBy(dst *influxql.SortFields) {
	if g.opt() {
		*dst = g.orderBy()
	}
}

func (g *G) optDims(dst *influxql.Dimensions) {
	if g.opt() {
		*dst, _ = g.dimensions(false)
	}
}

func (g *G) withKey() (influxql.Token, influxql.Literal) {
	g.kw("WITH", "KEY")
	switch g.C.Choose(5) {
	case 1:
		g.p("!=")
		return influxql.NEQ, &influxql.StringLiteral{Val: g.ident("withkey.key", "k")}
	case 2:
		g.p("=~")
		return influxql.EQREGEX, g.regex("withkey.regex")
	case 3:
		g.p("!~")
		return influxql.NEQREGEX, g.regex("withkey.regex")
	case 4:
		g.kw("IN")
		g.p("(")
		l := &influxql.ListLiteral{Vals: []string{g.ident("withkey.key", "k")}}
		for len(l.Vals) < 3 && g.opt() {
			g.p(",")
			l.Vals = append(l.Vals, g.ident("withkey.key", "k2"))
		}
		g.p(")")
		return influxql.IN, l
	}
	g.p("=")
	return influxql.EQ, &influxql.StringLiteral{Val: g.ident("withkey.key", "k")}
}

func (g *G) replication() int {
	t := g.value(INT, "replication", []string{"1", "3", "2147483647"}[g.pick(3)])
	n, _ := strconv.Atoi(t)
	return n
}

// durOrInf emits a duration or INF (which denotes 0).
func (g *G) durOrInf(role, def string) time.Duration {
	if g.C.Choose(2) == 1 {
		g.kw("INF")
		return 0
	}
	return g.dur(role, def)
}

func (g *G) privilege() influxql.Privilege {
	switch g.C.Choose(4) {
	case 1:
		g.kw("WRITE")
		return influxql.WritePrivilege
	case 2:
		g.kw("ALL")
		return influxql.AllPrivileges
	case 3:
		g.kw("ALL", "PRIVILEGES")
		return influxql.AllPrivileges
	}
	g.kw("READ")
	return influxql.ReadPrivilege
}

func cardinality(head []string, mk func(g *G, exact bool) influxql.Statement) func(g *G) influxql.Statement {
	return func(g *G) influxql.Statement {
		g.kw(head...)
		exact := g.opt()
		if exact {
			g.kw("EXACT")
		}
		g.kw("CARDINALITY")
		return mk(g, exact)
	}
}

// Forms lists every statement form.
var Forms = []Form{
	{"SELECT", func(g *G) influxql.Statement { g.kw("SELECT"); return g.SelectBody(SelTop) }},
	{"EXPLAIN", func(g *G) influxql.Statement {
		g.kw("EXPLAIN")
		e := &influxql.ExplainStatement{}
		if g.opt() {
			g.kw("ANALYZE")
			e.Analyze = true
		}
		if g.opt() {
			g.kw("VERBOSE")
			e.Verbose = true
		}
		g.kw("SELECT")
		e.Statement = g.SelectBody(SelExplain)
		return e
	}},
	{"CREATE CONTINUOUS QUERY", func(g *G) influxql.Statement {
		g.kw("CREATE", "CONTINUOUS", "QUERY")
		s := &influxql.CreateContinuousQueryStatement{}
		s.Name = g.ident("cq.name", "cq0")
		g.kw("ON")
		s.Database = g.ident("cq.db", "db0")
		if g.opt() {
			g.kw("RESAMPLE")
			switch g.C.Choose(3) {
			case 1:
				g.kw("FOR")
				s.ResampleFor = g.dur("resample.for", "2h")
			case 2:
				g.kw("EVERY")
				s.ResampleEvery = g.dur("resample.every", "30m")
				g.kw("FOR")
				s.ResampleFor = g.dur("resample.for", "2h")
			default:
				g.kw("EVERY")
				s.ResampleEvery = g.dur("resample.every", "30m")
			}
			if s.ResampleEvery == 0 && s.ResampleFor == 0 {
				g.Invalid("RESAMPLE needs a non-zero EVERY or FOR")
			}
		}
		g.kw("BEGIN", "SELECT")
		s.Source = g.SelectBody(SelCQ)
		g.kw("END")
		// FOR must cover the (resampled) interval
		if s.ResampleFor != 0 {
			var iv time.Duration
			for _, d := range s.Source.Dimensions {
				if c, ok := d.Expr.(*influxql.Call); ok && c.Name == "time" && len(c.Args) > 0 {
					if dl, ok := c.Args[0].(*influxql.DurationLiteral); ok {
						iv = dl.Val
					}
					break
				}
			}
			if s.ResampleEvery > iv {
				iv = s.ResampleEvery
			}
			if iv > s.ResampleFor {
				g.Invalid("FOR shorter than the interval")
			}
		}
		return s
	}},
	{"DELETE", func(g *G) influxql.Statement {
		g.kw("DELETE")
		s := &influxql.DeleteSeriesStatement{}
		if g.C.Choose(2) == 1 {
			s.Condition = g.where()
		} else {
			g.kw("FROM")
			s.Sources = g.sources(false, false, true)
			g.optWhere(&s.Condition)
		}
		return s
	}},
	{"DROP SERIES", func(g *G) influxql.Statement {
		g.kw("DROP", "SERIES")
		s := &influxql.DropSeriesStatement{}
		if g.C.Choose(2) == 1 {
			s.Condition = g.where()
		} else {
			g.kw("FROM")
			s.Sources = g.sources(false, false, false)
			g.optWhere(&s.Condition)
		}
		return s
	}},
	{"DROP DATABASE", func(g *G) influxql.Statement {
		g.kw("DROP", "DATABASE")
		return &influxql.DropDatabaseStatement{Name: g.ident("db", "db0")}
	}},
	{"DROP MEASUREMENT", func(g *G) influxql.Statement {
		g.kw("DROP", "MEASUREMENT")
		return &influxql.DropMeasurementStatement{Name: g.ident("measurement", "m")}
	}},
	{"DROP USER", func(g *G) influxql.Statement {
		g.kw("DROP", "USER")
		return &influxql.DropUserStatement{Name: g.ident("user", "u0")}
	}},
	{"DROP SHARD", func(g *G) influxql.Statement {
		g.kw("DROP", "SHARD")
		t := g.value(INT, "shard.id", []string{"1", "0", "18446744073709551615"}[g.pick(3)])
		n, _ := strconv.ParseUint(t, 10, 64)
		return &influxql.DropShardStatement{ID: n}
	}},
	{"DROP RETENTION POLICY", func(g *G) influxql.Statement {
		g.kw("DROP", "RETENTION", "POLICY")
		s := &influxql.DropRetentionPolicyStatement{}
		s.Name = g.ident("rp", "rp0")
		g.kw("ON")
		s.Database = g.ident("db", "db0")
		return s
	}},
	{"DROP CONTINUOUS QUERY", func(g *G) influxql.Statement {
		g.kw("DROP", "CONTINUOUS", "QUERY")
		s := &influxql.DropContinuousQueryStatement{}
		s.Name = g.ident("cq.name", "cq0")
		g.kw("ON")
		s.Database = g.ident("db", "db0")
		return s
	}},
	{"DROP SUBSCRIPTION", func(g *G) influxql.Statement {
		g.kw("DROP", "SUBSCRIPTION")
		s := &influxql.DropSubscriptionStatement{}
		s.Name = g.ident("sub.name", "sub0")
		g.kw("ON")
		s.Database = g.ident("db", "db0")
		g.Glue()
		g.p(".")
		g.Glue()
		s.RetentionPolicy = g.ident("rp", "rp0")
		return s
	}},
	{"CREATE DATABASE", func(g *G) influxql.Statement {
		g.kw("CREATE", "DATABASE")
		s := &influxql.CreateDatabaseStatement{Name: g.ident("db", "db0")}
		// WITH needs at least one option; options come in a fixed order
		n := 0
		with := func() {
			if n == 0 {
				g.kw("WITH")
				s.RetentionPolicyCreate = true
			}
			n++
		}
		if g.opt() {
			with()
			g.kw("DURATION")
			d := g.durOrInf("rp.duration", "24h")
			s.RetentionPolicyDuration = &d
		}
		if g.opt() {
			with()
			g.kw("REPLICATION")
			r := g.replication()
			s.RetentionPolicyReplication = &r
		}
		if g.opt() {
			with()
			g.kw("SHARD", "DURATION")
			s.RetentionPolicyShardGroupDuration = g.dur("shard.duration", "30m")
		}
		if g.opt() {
			with()
			g.kw("FUTURE", "LIMIT")
			d := g.dur("future.limit", "5m")
			s.FutureWriteLimit = &d
		}
		if g.opt() {
			with()
			g.kw("PAST", "LIMIT")
			d := g.dur("past.limit", "6m")
			s.PastWriteLimit = &d
		}
		if g.opt() {
			with()
			g.kw("NAME")
			s.RetentionPolicyName = g.ident("rp.name", "rp0")
		}
		return s
	}},
	{"CREATE RETENTION POLICY", func(g *G) influxql.Statement {
		g.kw("CREATE", "RETENTION", "POLICY")
		s := &influxql.CreateRetentionPolicyStatement{}
		s.Name = g.ident("rp", "rp0")
		g.kw("ON")
		s.Database = g.ident("db", "db0")
		g.kw("DURATION")
		s.Duration = g.durOrInf("rp.duration", "24h")
		g.kw("REPLICATION")
		s.Replication = g.replication()
		if g.opt() {
			g.kw("SHARD", "DURATION")
			s.ShardGroupDuration = g.dur("shard.duration", "30m")
		}
		if g.opt() {
			g.kw("DEFAULT")
			s.Default = true
		}
		if g.opt() {
			g.kw("FUTURE", "LIMIT")
			s.FutureWriteLimit = g.dur("future.limit", "5m")
		}
		if g.opt() {
			g.kw("PAST", "LIMIT")
			s.PastWriteLimit = g.dur("past.limit", "6m")
		}
		return s
	}},
	{"ALTER RETENTION POLICY", func(g *G) influxql.Statement {
		g.kw("ALTER", "RETENTION", "POLICY")
		s := &influxql.AlterRetentionPolicyStatement{}
		if g.C.Choose(2) == 1 {
			g.kw("DEFAULT")
			s.Name = "default"
		} else {
			s.Name = g.ident("rp", "rp0")
		}
		g.kw("ON")
		s.Database = g.ident("db", "db0")
		// options in any order, each at most once, at least one: the first is Free over the six, further ones are costed
		used := map[int]bool{}
		one := func(k int) {
			used[k] = true
			switch k {
			case 0:
				g.kw("DURATION")
				d := g.durOrInf("rp.duration", "24h")
				s.Duration = &d
			case 1:
				g.kw("REPLICATION")
				r := g.replication()
				s.Replication = &r
			case 2:
				g.kw("SHARD", "DURATION")
				d := g.dur("shard.duration", "30m")
				s.ShardGroupDuration = &d
			case 3:
				g.kw("DEFAULT")
				s.Default = true
			case 4:
				g.kw("FUTURE", "LIMIT")
				d := g.dur("future.limit", "5m")
				s.FutureWriteLimit = &d
			case 5:
				g.kw("PAST", "LIMIT")
				d := g.dur("past.limit", "6m")
				s.PastWriteLimit = &d
			}
		}
		one(g.C.Free(6))
		for len(used) < 6 && g.opt() {
			var rest []int
			for k := 0; k < 6; k++ {
				if !used[k] {
					rest = append(rest, k)
				}
			}
			one(rest[g.C.Free(len(rest))])
		}
		return s
	}},
	{"CREATE SUBSCRIPTION", func(g *G) influxql.Statement {
		g.kw("CREATE", "SUBSCRIPTION")
		s := &influxql.CreateSubscriptionStatement{}
		s.Name = g.ident("sub.name", "sub0")
		g.kw("ON")
		s.Database = g.ident("db", "db0")
		g.Glue()
		g.p(".")
		g.Glue()
		s.RetentionPolicy = g.ident("rp", "rp0")
		g.kw("DESTINATIONS")
		if g.C.Choose(2) == 1 {
			g.kw("ANY")
			s.Mode = "ANY"
		} else {
			g.kw("ALL")
			s.Mode = "ALL"
		}
		s.Destinations = []string{g.str("destination", "udp://h1:9000")}
		for len(s.Destinations) < 3 && g.opt() {
			g.p(",")
			s.Destinations = append(s.Destinations, g.str("destination", "udp://h2:9000"))
		}
		return s
	}},
	{"CREATE USER", func(g *G) influxql.Statement {
		g.kw("CREATE", "USER")
		s := &influxql.CreateUserStatement{}
		s.Name = g.ident("user", "u0")
		g.kw("WITH", "PASSWORD")
		s.Password = g.str("password", "pw0")
		if g.opt() {
			g.kw("WITH", "ALL", "PRIVILEGES")
			s.Admin = true
		}
		return s
	}},
	{"SET PASSWORD", func(g *G) influxql.Statement {
		g.kw("SET", "PASSWORD", "FOR")
		s := &influxql.SetPasswordUserStatement{}
		s.Name = g.ident("user", "u0")
		g.p("=")
		s.Password = g.str("password", "pw0")
		return s
	}},
	{"GRANT", func(g *G) influxql.Statement {
		g.kw("GRANT")
		priv := g.privilege()
		if priv == influxql.AllPrivileges && g.C.Choose(2) == 1 {
			g.kw("TO")
			return &influxql.GrantAdminStatement{User: g.ident("user", "u0")}
		}
		s := &influxql.GrantStatement{Privilege: priv}
		g.kw("ON")
		s.On = g.ident("db", "db0")
		g.kw("TO")
		s.User = g.ident("user", "u0")
		return s
	}},
	{"REVOKE", func(g *G) influxql.Statement {
		g.kw("REVOKE")
		priv := g.privilege()
		if priv == influxql.AllPrivileges && g.C.Choose(2) == 1 {
			g.kw("FROM")
			return &influxql.RevokeAdminStatement{User: g.ident("user", "u0")}
		}
		s := &influxql.RevokeStatement{Privilege: priv}
		g.kw("ON")
		s.On = g.ident("db", "db0")
		g.kw("FROM")
		s.User = g.ident("user", "u0")
		return s
	}},
	{"KILL QUERY", func(g *G) influxql.Statement {
		g.kw("KILL", "QUERY")
		t := g.value(INT, "query.id", []string{"1", "0", "18446744073709551615"}[g.pick(3)])
		n, _ := strconv.ParseUint(t, 10, 64)
		s := &influxql.KillQueryStatement{QueryID: n}
		if g.opt() {
			g.kw("ON")
			s.Host = g.ident("host", "h0")
		}
		return s
	}},
	{"SHOW CONTINUOUS QUERIES", func(g *G) influxql.Statement {
		g.kw("SHOW", "CONTINUOUS", "QUERIES")
		return &influxql.ShowContinuousQueriesStatement{}
	}},
	{"SHOW DATABASES", func(g *G) influxql.Statement {
		g.kw("SHOW", "DATABASES")
		return &influxql.ShowDatabasesStatement{}
	}},
	{"SHOW QUERIES", func(g *G) influxql.Statement { g.kw("SHOW", "QUERIES"); return &influxql.ShowQueriesStatement{} }},
	{"SHOW SHARDS", func(g *G) influxql.Statement { g.kw("SHOW", "SHARDS"); return &influxql.ShowShardsStatement{} }},
	{"SHOW SHARD GROUPS", func(g *G) influxql.Statement {
		g.kw("SHOW", "SHARD", "GROUPS")
		return &influxql.ShowShardGroupsStatement{}
	}},
	{"SHOW SUBSCRIPTIONS", func(g *G) influxql.Statement {
		g.kw("SHOW", "SUBSCRIPTIONS")
		return &influxql.ShowSubscriptionsStatement{}
	}},
	{"SHOW USERS", func(g *G) influxql.Statement { g.kw("SHOW", "USERS"); return &influxql.ShowUsersStatement{} }},
	{"SHOW DIAGNOSTICS", func(g *G) influxql.Statement {
		g.kw("SHOW", "DIAGNOSTICS")
		s := &influxql.ShowDiagnosticsStatement{}
		if g.opt() {
			g.kw("FOR")
			s.Module = g.str("module", "mod0")
		}
		return s
	}},
	{"SHOW STATS", func(g *G) influxql.Statement {
		g.kw("SHOW", "STATS")
		s := &influxql.ShowStatsStatement{}
		if g.opt() {
			g.kw("FOR")
			s.Module = g.str("module", "mod0")
		}
		return s
	}},
	{"SHOW GRANTS", func(g *G) influxql.Statement {
		g.kw("SHOW", "GRANTS", "FOR")
		return &influxql.ShowGrantsForUserStatement{Name: g.ident("user", "u0")}
	}},
	{"SHOW RETENTION POLICIES", func(g *G) influxql.Statement {
		g.kw("SHOW", "RETENTION", "POLICIES")
		s := &influxql.ShowRetentionPoliciesStatement{}
		g.optOn(&s.Database)
		return s
	}},
	{"SHOW MEASUREMENTS", func(g *G) influxql.Statement {
		g.kw("SHOW", "MEASUREMENTS")
		s := &influxql.ShowMeasurementsStatement{}
		if g.opt() {
			g.kw("ON")
			switch g.C.Choose(5) {
			case 1:
				s.Database = g.ident("on.db", "db0")
				g.Glue()
				g.p(".")
				g.Glue()
				s.RetentionPolicy = g.ident("on.rp", "rp0")
			case 2:
				g.p("*")
				s.WildcardDatabase = true
			case 3:
				g.p("*")
				s.WildcardDatabase = true
				g.Glue()
				g.p(".")
				g.Glue()
				g.p("*")
				s.WildcardRetentionPolicy = true
			case 4:
				s.Database = g.ident("on.db", "db0")
				g.Glue()
				g.p(".")
				g.Glue()
				g.p("*")
				s.WildcardRetentionPolicy = true
			default:
				s.Database = g.ident("on.db", "db0")
			}
		}
		if g.opt() {
			g.kw("WITH", "MEASUREMENT")
			m := &influxql.Measurement{}
			if g.C.Choose(2) == 1 {
				g.p("=~")
				m.Regex = g.regex("with.regex")
			} else {
				g.p("=")
				g.segments("with", g.C.Choose(4), m, "m")
			}
			s.Source = m
		}
		g.optWhere(&s.Condition)
		g.optOrderBy(&s.SortFields)
		g.optCount("LIMIT", "limit", "5", &s.Limit)
		g.optCount("OFFSET", "offset", "6", &s.Offset)
		return s
	}},
	{"SHOW SERIES", func(g *G) influxql.Statement {
		g.kw("SHOW", "SERIES")
		s := &influxql.ShowSeriesStatement{}
		g.optOn(&s.Database)
		g.optFrom(&s.Sources)
		g.optWhere(&s.Condition)
		g.optOrderBy(&s.SortFields)
		g.optCount("LIMIT", "limit", "5", &s.Limit)
		g.optCount("OFFSET", "offset", "6", &s.Offset)
		return s
	}},
	{"SHOW FIELD KEYS", func(g *G) influxql.Statement {
		g.kw("SHOW", "FIELD", "KEYS")
		s := &influxql.ShowFieldKeysStatement{}
		g.optOn(&s.Database)
		g.optFrom(&s.Sources)
		g.optOrderBy(&s.SortFields)
		g.optCount("LIMIT", "limit", "5", &s.Limit)
		g.optCount("OFFSET", "offset", "6", &s.Offset)
		return s
	}},
	{"SHOW TAG KEYS", func(g *G) influxql.Statement {
		g.kw("SHOW", "TAG", "KEYS")
		s := &influxql.ShowTagKeysStatement{}
		g.optOn(&s.Database)
		g.optFrom(&s.Sources)
		if g.opt() {
			s.TagKeyOp, s.TagKeyExpr = g.withKey()
		}
		g.optWhere(&s.Condition)
		g.optOrderBy(&s.SortFields)
		g.optCount("LIMIT", "limit", "5", &s.Limit)
		g.optCount("OFFSET", "offset", "6", &s.Offset)
		g.optCount("SLIMIT", "slimit", "7", &s.SLimit)
		g.optCount("SOFFSET", "soffset", "8", &s.SOffset)
		return s
	}},
	{"SHOW TAG VALUES", func(g *G) influxql.Statement {
		g.kw("SHOW", "TAG", "VALUES")
		s := &influxql.ShowTagValuesStatement{}
		g.optOn(&s.Database)
		g.optFrom(&s.Sources)
		s.Op, s.TagKeyExpr = g.withKey()
		g.optWhere(&s.Condition)
		g.optOrderBy(&s.SortFields)
		g.optCount("LIMIT", "limit", "5", &s.Limit)
		g.optCount("OFFSET", "offset", "6", &s.Offset)
		return s
	}},
	{"SHOW SERIES CARDINALITY", cardinality([]string{"SHOW", "SERIES"}, func(g *G, exact bool) influxql.Statement {
		s := &influxql.ShowSeriesCardinalityStatement{Exact: exact}
		g.optOn(&s.Database)
		g.optFrom(&s.Sources)
		g.optWhere(&s.Condition)
		g.optDims(&s.Dimensions)
		g.optCount("LIMIT", "limit", "5", &s.Limit)
		g.optCount("OFFSET", "offset", "6", &s.Offset)
		return s
	})},
	{"SHOW MEASUREMENT CARDINALITY", cardinality([]string{"SHOW", "MEASUREMENT"}, func(g *G, exact bool) influxql.Statement {
		s := &influxql.ShowMeasurementCardinalityStatement{Exact: exact}
		g.optOn(&s.Database)
		g.optFrom(&s.Sources)
		g.optWhere(&s.Condition)
		g.optDims(&s.Dimensions)
		g.optCount("LIMIT", "limit", "5", &s.Limit)
		g.optCount("OFFSET", "offset", "6", &s.Offset)
		return s
	})},
	{"SHOW TAG KEY CARDINALITY", cardinality([]string{"SHOW", "TAG", "KEY"}, func(g *G, exact bool) influxql.Statement {
		s := &influxql.ShowTagKeyCardinalityStatement{Exact: exact}
		g.optOn(&s.Database)
		g.optFrom(&s.Sources)
		g.optWhere(&s.Condition)
		g.optDims(&s.Dimensions)
		g.optCount("LIMIT", "limit", "5", &s.Limit)
		g.optCount("OFFSET", "offset", "6", &s.Offset)
		return s
	})},
	{"SHOW FIELD KEY CARDINALITY", cardinality([]string{"SHOW", "FIELD", "KEY"}, func(g *G, exact bool) influxql.Statement {
		s := &influxql.ShowFieldKeyCardinalityStatement{Exact: exact}
		g.optOn(&s.Database)
		g.optFrom(&s.Sources)
		g.optWhere(&s.Condition)
		g.optDims(&s.Dimensions)
		g.optCount("LIMIT", "limit", "5", &s.Limit)
		g.optCount("OFFSET", "offset", "6", &s.Offset)
		return s
	})},
	{"SHOW TAG VALUES CARDINALITY", cardinality([]string{"SHOW", "TAG", "VALUES"}, func(g *G, exact bool) influxql.Statement {
		s := &influxql.ShowTagValuesCardinalityStatement{Exact: exact}
		g.optOn(&s.Database)
		g.optFrom(&s.Sources)
		s.Op, s.TagKeyExpr = g.withKey()
		g.optWhere(&s.Condition)
		g.optDims(&s.Dimensions)
		g.optCount("LIMIT", "limit", "5", &s.Limit)
		g.optCount("OFFSET", "offset", "6", &s.Offset)
		return s
	})},
}

// Statement generates one statement of a form chosen freely among all forms.
func Statement(g *G) *Spec {
	f := Forms[g.C.Free(len(Forms))]
	st := f.Gen(g)
	return &Spec{Form: f.Name, Stmt: st, Toks: g.Toks}
}

// StatementOf generates a statement of the given form.
func StatementOf(g *G, form int) *Spec {
	f := Forms[form]
	st := f.Gen(g)
	return &Spec{Form: f.Name, Stmt: st, Toks: g.Toks}
}
