// Package c17b holds the thread bodies and shared statements of the C17 scenarios; it is used both by the
// schedule explorer (instrumented build) and by the free-running race-detector pass (plain -race build).
package c17b

import (
	"fmt"
	"strings"
	"time"

	"github.com/influxdata/influxql"

	"verif/harness/astx"
)

// ---- bodies -----------------------------------------------------------------------------------------------------------

type Env struct {
	Shared influxql.Statement
	Sel    *influxql.SelectStatement
}

type Body struct {
	Name    string
	Shared  bool // operates on the shared AST
	Control bool // expected to conflict (not part of the claimed set)
	Run     func(e *Env) string
	Env     *Env
	Want    string // when set: what the body returns by the documented behaviour of the calls it makes, written out by hand
}

func Dump(x interface{}) string { return astx.Dump(astx.Full, x) }

var clock = time.Date(2020, 3, 1, 10, 0, 0, 0, time.UTC)

type mapper struct{}

// The schema maps are long-lived, as in a server's schema cache: every call hands out the same two maps. They are part
// of the state shared between threads (SchemaRoots).
var (
	schemaFields = map[string]influxql.DataType{"x": influxql.Float, "y": influxql.Integer, "s": influxql.String}
	schemaTags   = map[string]struct{}{"host": {}, "region": {}}
)

// SchemaRoots returns the shared schema objects for the region of pre-existing state.
func SchemaRoots() []interface{} { return []interface{}{&schemaFields, &schemaTags, &sharedSegments} }

func (mapper) FieldDimensions(m *influxql.Measurement) (map[string]influxql.DataType, map[string]struct{}, error) {
	return schemaFields, schemaTags, nil
}
func (mapper) MapType(m *influxql.Measurement, f string) influxql.DataType {
	switch f {
	case "x":
		return influxql.Float
	case "y":
		return influxql.Integer
	case "s":
		return influxql.String
	case "host", "region":
		return influxql.Tag
	}
	return influxql.Unknown
}

var sharedSegments = []string{"my db", "auto\"gen", "cpu load"}

// Reset puts the long-lived shared values back to their initial contents (same objects): executions are independent.
func Reset() {
	sharedSegments[0], sharedSegments[1], sharedSegments[2] = "my db", "auto\"gen", "cpu load"
}

var ParseTexts = []string{
	"SELECT mean(x) FROM db.rp.m WHERE host =~ /a.*/ AND time > now() - 1h GROUP BY time(10m), host fill(none) ORDER BY time DESC LIMIT 5 TZ('UTC')",
	"CREATE CONTINUOUS QUERY cq ON db RESAMPLE EVERY 1h FOR 2h BEGIN SELECT count(x) INTO t FROM m GROUP BY time(30m) END",
	"SHOW TAG VALUES ON db FROM /m.*/ WITH KEY IN (a, \"b c\") WHERE x = 'y' LIMIT 3",
	"SELECT \"a b\"::float + 1.5 * -y AS z INTO db..t FROM (SELECT * FROM m), m2 WHERE s = 'it\\'s' -- c\n",
	// deep nesting: a limit or a counter that belongs to one parse must not be shared between parses
	"SELECT " + strings.Repeat("(", 200) + "a + 1" + strings.Repeat(")", 200) + " FROM m WHERE " + strings.Repeat("(", 120) + "b = 2" + strings.Repeat(")", 120),
}

var SharedTexts = []string{
	"SELECT x, y::field AS al, mean(x), s::tag, (x + 1), ((y)) FROM m WHERE host::tag = 'a' AND x::field > 1.5 AND y::integer > 0 GROUP BY host",
	"SELECT /x|y/, top(x, host, 2) INTO db.rp.t FROM (SELECT * FROM m WHERE s =~ /^(a|b)$/), db2..m2, /re/ WHERE time > now() - 1h AND host =~ /^srv$/ GROUP BY time(1m), * fill(1.5) ORDER BY time DESC LIMIT 3 TZ('UTC')",
	"SELECT *, count(*), time FROM m, m2 GROUP BY *",
	"CREATE CONTINUOUS QUERY cq ON db BEGIN SELECT mean(x) INTO t FROM m WHERE host !~ /^(a|b)$/ GROUP BY time(1h) END",
	"SELECT *, percentile(x, 90), top(y, host, 2) FROM m WHERE time > now() - 1h GROUP BY host, time(10m, now())",
	// sibling subqueries, two of which cannot be expanded: the error reported is that of the first one in source order
	"SELECT * FROM (SELECT mean(*::tag) FROM m), (SELECT max(*::tag) FROM m), (SELECT x FROM m GROUP BY host), m2",
	// a wildcard or regex directly inside a call of every class that the expansion treats differently
	"SELECT mean(*), count(/x|y/), min(*), holt_winters(*, 10, 2), holt_winters_with_fit(/x|y/, 10, 2), sum(/x/), first(*), sample(*, 2) FROM m",
}

func SelOf(s influxql.Statement) *influxql.SelectStatement {
	switch v := s.(type) {
	case *influxql.SelectStatement:
		return v
	case *influxql.CreateContinuousQueryStatement:
		return v.Source
	case *influxql.ExplainStatement:
		return v.Statement
	}
	return nil
}

func Bodies() []*Body {
	var out []*Body
	add := func(name string, shared bool, f func(e *Env) string) {
		out = append(out, &Body{Name: name, Shared: shared, Run: f})
	}
	ctl := func(name string, f func(e *Env) string) {
		out = append(out, &Body{Name: name, Shared: true, Control: true, Run: f})
	}
	for i, t := range ParseTexts {
		t := t
		add(fmt.Sprintf("ParseStatement#%d", i), false, func(*Env) string {
			s, err := influxql.ParseStatement(t)
			return Dump(s) + fmt.Sprint(err)
		})
	}
	add("ParseQuery", false, func(*Env) string {
		q, err := influxql.ParseQuery(ParseTexts[0] + ";" + ParseTexts[2] + "; DROP SERIES FROM m")
		return Dump(q) + fmt.Sprint(err)
	})
	add("ParseExpr", false, func(*Env) string {
		e, err := influxql.ParseExpr("a + b * (c - 1.5) > 2 AND host =~ /x/ OR NOT_A_KW = 'v'")
		return Dump(e) + fmt.Sprint(err)
	})
	add("Parser+params", false, func(*Env) string {
		p := influxql.NewParser(strings.NewReader("SELECT $f FROM $m WHERE h = $v AND r =~ $re LIMIT $n"))
		p.SetParams(map[string]interface{}{"f": map[string]interface{}{"ident": "x"}, "m": map[string]interface{}{"ident": "m"}, "v": "a'b", "re": map[string]interface{}{"regex": "a/b"}, "n": int64(3)})
		s, err := p.ParseStatement()
		return Dump(s) + fmt.Sprint(err)
	})
	add("parse error", false, func(*Env) string { _, err := influxql.ParseStatement("SELECT FROM 'x"); return fmt.Sprint(err) })
	add("Quote/IdentNeedsQuotes", false, func(*Env) string {
		// the segments are one long-lived slice that every caller spreads into the call (a server's configured default
		// database and retention policy): quoting reads it
		return influxql.QuoteString("it's\n\\") + influxql.QuoteIdent("my db", "", "select") + influxql.QuoteIdent(sharedSegments...) + fmt.Sprint(influxql.IdentNeedsQuotes("select"), influxql.IdentNeedsQuotes("ok_1")) +
			// names that differ only by a character whose lower-case form is an ASCII letter (Kelvin sign, dotted capital I)
			influxql.QuoteIdent("\u212ad", "kd", "\u0130d", "id") + fmt.Sprint(influxql.IdentNeedsQuotes("\u212ad"), influxql.IdentNeedsQuotes("kd"))
	})
	// "Made alone" also means: not after other calls in the same process. The solo run of a body comes after many other
	// runs, so its result is compared with this text as well.
	out[len(out)-1].Want = `'it\'s\n\\'"my db".."select""my db"."auto\"gen"."cpu load"true false` + "\"\u212ad\".\"kd\".\"\u0130d\".idtrue false"
	add("Format/ParseDuration", false, func(*Env) string {
		d, err := influxql.ParseDuration("1h30m")
		_, err2 := influxql.ParseDuration("5124096h")
		return influxql.FormatDuration(90*time.Minute) + fmt.Sprint(d, err, err2)
	})
	add("Sanitize", false, func(*Env) string {
		return influxql.Sanitize("create user u with password 'p q'; set password for \"a=b\"='x'")
	})
	add("Lookup/Token.String", false, func(*Env) string {
		return fmt.Sprint(influxql.Lookup("select"), influxql.Lookup("nokw"), influxql.SELECT.String(), influxql.EQREGEX.Precedence())
	})
	add("Scanner", false, func(*Env) string {
		sc := influxql.NewScanner(strings.NewReader("SELECT \"a\" FROM m WHERE x =~ /r/ -- c"))
		var b strings.Builder
		for {
			t, p, l := sc.Scan()
			fmt.Fprint(&b, t, p, l, ";")
			if t == influxql.EOF {
				return b.String()
			}
		}
	})
	// read-only use of the shared AST
	add("String", true, func(e *Env) string { return e.Shared.String() })
	add("Clone", true, func(e *Env) string {
		if e.Sel == nil {
			return ""
		}
		return Dump(e.Sel.Clone())
	})
	add("Walk", true, func(e *Env) string {
		n := 0
		influxql.WalkFunc(e.Shared, func(influxql.Node) { n++ })
		return fmt.Sprint(n)
	})
	add("Reduce(clock)", true, func(e *Env) string {
		if e.Sel == nil {
			return ""
		}
		return Dump(e.Sel.Reduce(&influxql.NowValuer{Now: clock}))
	})
	add("RewriteFields", true, func(e *Env) string {
		if e.Sel == nil {
			return ""
		}
		s, err := e.Sel.RewriteFields(mapper{})
		return Dump(s) + fmt.Sprint(err)
	})
	add("ColumnNames", true, func(e *Env) string {
		if e.Sel == nil {
			return ""
		}
		return fmt.Sprint(e.Sel.ColumnNames())
	})
	add("RequiredPrivileges/DefaultDatabase", true, func(e *Env) string {
		p, err := e.Shared.RequiredPrivileges()
		d := ""
		if h, ok := e.Shared.(influxql.HasDefaultDatabase); ok {
			d = h.DefaultDatabase()
		}
		return fmt.Sprint(p, err, d)
	})
	add("EvalBool/Eval/EvalType", true, func(e *Env) string {
		if e.Sel == nil {
			return ""
		}
		m := map[string]interface{}{"host": "a", "x": 2.5, "s": "a"}
		out := fmt.Sprint(influxql.EvalBool(e.Sel.Condition, m))
		for _, f := range e.Sel.Fields {
			out += fmt.Sprint(influxql.Eval(f.Expr, m), influxql.EvalType(f.Expr, e.Sel.Sources, mapper{}))
		}
		return out
	})
	add("ConditionExpr", true, func(e *Env) string {
		if e.Sel == nil {
			return ""
		}
		c, tr, err := influxql.ConditionExpr(e.Sel.Condition, &influxql.NowValuer{Now: clock})
		return Dump(c) + fmt.Sprint(tr.MinTimeNano(), tr.MaxTimeNano(), err)
	})
	add("names", true, func(e *Env) string {
		if e.Sel == nil {
			return ""
		}
		i, x := e.Sel.FieldExprByName("al")
		d, tags := e.Sel.Dimensions.Normalize()
		return fmt.Sprint(e.Sel.Fields.Names(), e.Sel.Fields.AliasNames(), influxql.ExprNames(e.Sel.Condition), i, x, e.Sel.HasWildcard(), e.Sel.Sources.Measurements(), d, tags, influxql.HasTimeExpr(e.Sel.Condition), e.Sel.TimeAscending())
	})
	add("CloneExpr/String of parts", true, func(e *Env) string {
		if e.Sel == nil {
			return ""
		}
		return Dump(influxql.CloneExpr(e.Sel.Condition)) + e.Sel.Fields.String() + e.Sel.Sources.String() + e.Sel.Dimensions.String()
	})
	add("Reduce of the shared expressions", true, func(e *Env) string {
		if e.Sel == nil {
			return ""
		}
		// the package-level Reduce takes the shared nodes themselves, not a clone
		v := &influxql.NowValuer{Now: clock}
		out := Dump(influxql.Reduce(e.Sel.Condition, v))
		for _, f := range e.Sel.Fields {
			out += Dump(influxql.Reduce(f.Expr, v))
		}
		for _, d := range e.Sel.Dimensions {
			out += Dump(influxql.Reduce(d.Expr, nil))
		}
		return out
	})
	// controls: not in the shared set, must be flagged
	ctl("control:GroupByInterval", func(e *Env) string {
		if e.Sel == nil {
			return ""
		}
		d, err := e.Sel.GroupByInterval()
		return fmt.Sprint(d, err)
	})
	ctl("control:RewriteTimeFields", func(e *Env) string {
		if e.Sel == nil {
			return ""
		}
		e.Sel.RewriteTimeFields()
		return e.Sel.Fields.String()
	})
	ctl("control:RewriteRegexConditions", func(e *Env) string {
		if e.Sel == nil {
			return ""
		}
		e.Sel.RewriteRegexConditions()
		return fmt.Sprint(e.Sel.Condition)
	})
	return out
}
