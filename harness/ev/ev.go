// Package ev holds what every check shares: the run record (counters, distinct-state set,
// samples), the findings ledger, violation reporting with replay files, and the evidence writer.
package ev

import (
	"bufio"
	"crypto/sha1"
	"encoding/json"
	"fmt"
	"os"
	"path/filepath"
	"sort"
	"strings"
	"sync"
	"sync/atomic"
	"time"
)

// Root is /verif (overridable for tests).
var Root = func() string {
	if r := os.Getenv("VERIF_ROOT"); r != "" {
		return r
	}
	return "/verif"
}()

// Finding is one violation of a property on one case.
type Finding struct {
	Sig     string      // narrow signature of the failure shape (without the property id)
	Witness string      // the failing input / history, human readable
	Detail  string      // expected vs actual
	Case    interface{} // JSON-serialisable replay data understood by the check's Replay function
	Rank    int         // smaller = simpler witness (deviations, length)
}

type sigRec struct {
	f     Finding
	count int64
}

const nShards = 64

// Run is the record of one check execution.
type Run struct {
	ID      string
	Tier    string
	Seed    int64
	Start   time.Time
	Workers int

	Evaluations int64 // cases / executions
	Transitions int64
	Nontrivial  int64 // updated through State(…, nontrivial=true) only for first sightings

	shards [nShards]struct {
		mu sync.Mutex
		m  map[uint64]struct{}
	}
	states int64

	mu          sync.Mutex
	sigs        map[string]*sigRec
	samples     []interface{}
	sampleAt    int64
	Extra       map[string]interface{}
	Rule        string
	Exhaustive  bool
	Assumptions []string
	Notes       []string
	ledger      *Ledger
	ReplayFn    func(raw json.RawMessage) []Finding
}

// NewRun creates the record.
func NewRun(id, tier string, seed int64, workers int) *Run {
	r := &Run{ID: id, Tier: tier, Seed: seed, Start: time.Now(), Workers: workers,
		sigs: map[string]*sigRec{}, Extra: map[string]interface{}{}, Exhaustive: true, sampleAt: 1}
	for i := range r.shards {
		r.shards[i].m = map[uint64]struct{}{}
	}
	r.ledger = LoadLedger()
	return r
}

// Eval counts one evaluated case.
func (r *Run) Eval() int64 { return atomic.AddInt64(&r.Evaluations, 1) }

// Trans counts transitions.
func (r *Run) Trans(n int64) { atomic.AddInt64(&r.Transitions, n) }

// State records a canonical state hash; returns true at first sighting. nontrivial tells whether
// the state satisfies the check's non-triviality rule (counted once per distinct state).
func (r *Run) State(h uint64, nontrivial bool) bool {
	s := &r.shards[h%nShards]
	s.mu.Lock()
	_, ok := s.m[h]
	if !ok {
		s.m[h] = struct{}{}
	}
	s.mu.Unlock()
	if !ok {
		atomic.AddInt64(&r.states, 1)
		if nontrivial {
			atomic.AddInt64(&r.Nontrivial, 1)
		}
	}
	return !ok
}

// States returns the number of distinct states.
func (r *Run) States() int64 { return atomic.LoadInt64(&r.states) }

// Sample offers a case for the evidence samples; kept at evaluation counts 1, 4, 16, 64, ….
func (r *Run) Sample(n int64, mk func() interface{}) {
	if n < atomic.LoadInt64(&r.sampleAt) {
		return
	}
	r.mu.Lock()
	if n >= r.sampleAt && len(r.samples) < 14 {
		r.samples = append(r.samples, mk())
		atomic.StoreInt64(&r.sampleAt, r.sampleAt*4)
	}
	r.mu.Unlock()
}

// AddSample appends a sample unconditionally.
func (r *Run) AddSample(s interface{}) {
	r.mu.Lock()
	if len(r.samples) < 40 {
		r.samples = append(r.samples, s)
	}
	r.mu.Unlock()
}

// Report records a violation.
func (r *Run) Report(f Finding) {
	r.mu.Lock()
	rec := r.sigs[f.Sig]
	if rec == nil {
		r.sigs[f.Sig] = &sigRec{f: f, count: 1}
	} else {
		rec.count++
		if f.Rank < rec.f.Rank || (f.Rank == rec.f.Rank && (len(f.Witness) < len(rec.f.Witness) ||
			(len(f.Witness) == len(rec.f.Witness) && f.Witness < rec.f.Witness))) {
			rec.f = f
		}
	}
	r.mu.Unlock()
}

// Note adds a free-text remark to the evidence.
func (r *Run) Note(format string, a ...interface{}) {
	r.mu.Lock()
	r.Notes = append(r.Notes, fmt.Sprintf(format, a...))
	r.mu.Unlock()
}

// Set stores an extra coverage key.
func (r *Run) Set(k string, v interface{}) {
	r.mu.Lock()
	r.Extra[k] = v
	r.mu.Unlock()
}

// Add adds to an integer extra coverage key.
func (r *Run) Add(k string, n int64) {
	r.mu.Lock()
	old, _ := r.Extra[k].(int64)
	r.Extra[k] = old + n
	r.mu.Unlock()
}

// Finish classifies violations against the ledger, writes replay files and the evidence file,
// prints verdict lines and returns the process exit code.
func (r *Run) Finish() int {
	sigs := make([]string, 0, len(r.sigs))
	for s := range r.sigs {
		sigs = append(sigs, s)
	}
	sort.Strings(sigs)
	newViol, unconfirmed := 0, 0
	known := map[string]int64{}
	for _, s := range sigs {
		rec := r.sigs[s]
		if r.ledger.Known(r.ID, s) {
			known[s] = rec.count
			fmt.Printf("KNOWN-FINDING: property=%s sig=%s witness=%q (%d cases) :: %s\n", r.ID, s, rec.f.Witness, rec.count, oneLine(rec.f.Detail))
			continue
		}
		// believe a violation only if it replays identically, twice, from its serialised form
		path, err := r.writeReplay(rec.f)
		if err != nil {
			fmt.Printf("HARNESS-ERROR: cannot write replay for %s: %v\n", s, err)
			return 2
		}
		if r.ReplayFn != nil {
			raw, _ := json.Marshal(rec.f.Case)
			confirmed := true
			for k := 0; k < 2 && confirmed; k++ {
				var fs []Finding
				func() {
					defer func() {
						if p := recover(); p != nil {
							// the replay itself brought the library down: the case is real enough
							fs = []Finding{{Sig: s}}
						}
					}()
					fs = r.ReplayFn(raw)
				}()
				found := false
				for _, f := range fs {
					if f.Sig == s {
						found = true
					}
				}
				if !found {
					confirmed = false
				}
			}
			if !confirmed {
				// Seen while the workers of this run used the library side by side, not seen when the case is replayed
				// alone: either the library misbehaves only under concurrent use (C17 decides that) or the harness is at
				// fault. Either way it is not evidence against this property and is not reported as a violation.
				unconfirmed++
				fmt.Printf("UNCONFIRMED: property=%s sig=%s witness=%q :: seen during the run, does not reproduce when replayed alone (%s)\n", r.ID, s, rec.f.Witness, path)
				continue
			}
		}
		newViol++
		if newViol <= 25 {
			fmt.Printf("VIOLATION property=%s replay=%s\n", r.ID, path)
			fmt.Printf("  sig=%s cases=%d\n  witness=%q\n  %s\n", s, rec.count, rec.f.Witness, oneLine(rec.f.Detail))
		}
	}
	if newViol > 25 {
		fmt.Printf("(%d further violation signatures not listed)\n", newViol-25)
	}
	if unconfirmed > 0 {
		r.Set("findings_not_reproduced_when_replayed_alone", unconfirmed)
	}
	if err := r.writeEvidence(newViol, known); err != nil {
		fmt.Printf("HARNESS-ERROR: cannot write evidence: %v\n", err)
		return 2
	}
	fmt.Printf("%s %s: evaluations=%d states=%d transitions=%d nontrivial=%d exhaustive=%v known_sigs=%d violations=%d wall=%.1fs\n",
		r.ID, r.Tier, r.Evaluations, r.States(), r.Transitions, r.Nontrivial, r.Exhaustive, len(known), newViol, time.Since(r.Start).Seconds())
	if newViol > 0 {
		return 1
	}
	return 0
}

func oneLine(s string) string {
	s = strings.ReplaceAll(s, "\n", " ⏎ ")
	if len(s) > 400 {
		s = s[:400] + "…"
	}
	return s
}

// ReplayFile is the on-disk form of a violation.
type ReplayFile struct {
	Property string          `json:"property"`
	Tier     string          `json:"tier"`
	Sig      string          `json:"sig"`
	Witness  string          `json:"witness"`
	Detail   string          `json:"detail"`
	Case     json.RawMessage `json:"case"`
}

// WriteCrash records a panic of the code under test that no check-level guard caught.
func WriteCrash(id, tier, sig, text string) string {
	rf := ReplayFile{Property: id, Tier: tier, Sig: sig, Witness: "(see detail)", Detail: text, Case: json.RawMessage("null")}
	b, _ := json.MarshalIndent(rf, "", " ")
	dir := filepath.Join(Root, "replays", id)
	os.MkdirAll(dir, 0o755)
	path := filepath.Join(dir, "crash.json")
	os.WriteFile(path, b, 0o644)
	return path
}

func (r *Run) writeReplay(f Finding) (string, error) {
	raw, err := json.Marshal(f.Case)
	if err != nil {
		return "", err
	}
	rf := ReplayFile{Property: r.ID, Tier: r.Tier, Sig: f.Sig, Witness: f.Witness, Detail: f.Detail, Case: raw}
	b, _ := json.MarshalIndent(rf, "", " ")
	dir := filepath.Join(Root, "replays", r.ID)
	if err := os.MkdirAll(dir, 0o755); err != nil {
		return "", err
	}
	sum := sha1.Sum([]byte(r.ID + "|" + f.Sig))
	p := filepath.Join(dir, fmt.Sprintf("%x.json", sum[:6]))
	return p, os.WriteFile(p, b, 0o644)
}

func (r *Run) writeEvidence(viol int, known map[string]int64) error {
	cov := map[string]interface{}{}
	for k, v := range r.Extra {
		cov[k] = v
	}
	st := r.States()
	if st < 1 {
		st = 1
	}
	tr := r.Transitions
	if tr < 1 {
		tr = r.Evaluations
	}
	if tr < 1 {
		tr = 1
	}
	cov["states"] = st
	cov["transitions"] = tr
	cov["traces_validated_against_impl"] = r.Evaluations
	cov["evaluations"] = r.Evaluations
	cov["distinct_nontrivial"] = r.Nontrivial
	cov["rule"] = r.Rule
	cov["exhaustive"] = r.Exhaustive
	if len(r.samples) == 0 {
		r.samples = []interface{}{"(no case was generated)"}
	}
	cov["samples"] = r.samples
	cov["known_finding_hits"] = known
	if len(r.Notes) > 0 {
		cov["notes"] = r.Notes
	}
	cov["workers"] = r.Workers
	e := map[string]interface{}{
		"property_id": r.ID,
		"tier":        r.Tier,
		"seed":        r.Seed,
		"level":       "model_checking",
		"coverage":    cov,
		"assumptions": r.Assumptions,
		"wall_s":      time.Since(r.Start).Seconds(),
		"violations":  viol,
	}
	if r.Assumptions == nil {
		e["assumptions"] = []string{}
	}
	b, err := json.MarshalIndent(e, "", " ")
	if err != nil {
		return err
	}
	dir := filepath.Join(Root, "evidence")
	if d := os.Getenv("VERIF_EVIDENCE_DIR"); d != "" {
		dir = d // runs against a deliberately changed tree (tools/seedcheck.sh) keep their evidence apart
	}
	if err := os.MkdirAll(dir, 0o755); err != nil {
		return err
	}
	return os.WriteFile(filepath.Join(dir, r.ID+".json"), append(b, '\n'), 0o644)
}

// Ledger is the committed list of known findings (never written at run time).
type Ledger struct {
	known map[string]bool // "C02|sig"
	Fixed []string
}

// LoadLedger reads /verif/KNOWN_FINDINGS.txt.
func LoadLedger() *Ledger {
	l := &Ledger{known: map[string]bool{}}
	f, err := os.Open(filepath.Join(Root, "KNOWN_FINDINGS.txt"))
	if err != nil {
		return l
	}
	defer f.Close()
	sc := bufio.NewScanner(f)
	sc.Buffer(make([]byte, 1<<20), 1<<20)
	for sc.Scan() {
		ln := strings.TrimSpace(sc.Text())
		if strings.HasPrefix(ln, "fixed:") {
			l.Fixed = append(l.Fixed, ln)
			continue
		}
		if !strings.HasPrefix(ln, "finding:") {
			continue
		}
		// finding: property=C02 sig=<sig> witness=... :: text      (sig has no spaces)
		var prop, sig string
		for _, w := range strings.Fields(ln) {
			if strings.HasPrefix(w, "property=") && prop == "" {
				prop = strings.TrimPrefix(w, "property=")
			} else if strings.HasPrefix(w, "sig=") && sig == "" {
				sig = strings.TrimPrefix(w, "sig=")
			}
		}
		if prop != "" && sig != "" {
			l.known[prop+"|"+sig] = true
		}
	}
	return l
}

// Known tells whether the ledger lists this signature for the property.
func (l *Ledger) Known(prop, sig string) bool { return l.known[prop+"|"+sig] }

// SigSafe makes a string usable inside a signature (no whitespace).
func SigSafe(s string) string {
	s = strings.Join(strings.Fields(s), "_")
	if len(s) > 120 {
		s = s[:120]
	}
	return s
}
