package ev

import (
	"fmt"
	"os"
	"os/exec"
	"strings"
	"sync"
)

// supervise runs the check in a child process. Some failures of the code under test cannot be caught inside the
// process that suffers them: a goroutine stack that outgrows the runtime's limit, a concurrent map access, a deadlock
// the runtime detects — the Go runtime ends the process with "fatal error: …". The parent then looks at what the child
// left on its standard error: if a goroutine was inside the library, that is a violation with a crash record, like an
// uncaught panic; otherwise the failure is passed on as it is.
func Supervise(id, tier string) int {
	exe, err := os.Executable()
	if err != nil {
		fmt.Println("HARNESS-ERROR:", err)
		return 2
	}
	cmd := exec.Command(exe, os.Args[1:]...)
	cmd.Env = append(os.Environ(), "VERIF_SUPERVISED=1")
	cmd.Stdout = os.Stdout
	cmd.Stdin = os.Stdin
	tail := &tailWriter{max: 1 << 20}
	cmd.Stderr = tail
	err = cmd.Run()
	os.Stderr.Write(tail.head())
	if err == nil {
		return 0
	}
	rc := 2
	if ee, ok := err.(*exec.ExitError); ok && ee.ExitCode() >= 0 {
		rc = ee.ExitCode()
	}
	if rc == 1 {
		return 1
	}
	text := string(tail.head())
	if i := strings.Index(text, "fatal error: "); i >= 0 {
		kind := text[i+len("fatal error: "):]
		if j := strings.IndexByte(kind, '\n'); j >= 0 {
			kind = kind[:j]
		}
		if where := LibraryFrame(text[i:]); where != "" {
			sig := "fatal-error-in-library:" + SigSafe(kind) + ":" + where
			if len(text) > 64<<10 {
				text = text[:64<<10]
			}
			path := WriteCrash(id, tier, sig, text)
			fmt.Printf("VIOLATION property=%s replay=%s\n  sig=%s\n  the Go runtime ended the check with \"fatal error: %s\" while a goroutine was inside %s\n", id, path, sig, kind, where)
			return 1
		}
	}
	return rc
}

// tailWriter keeps the first max bytes written to it.
type tailWriter struct {
	mu  sync.Mutex
	buf []byte
	max int
}

func (t *tailWriter) Write(p []byte) (int, error) {
	t.mu.Lock()
	if room := t.max - len(t.buf); room > 0 {
		if len(p) < room {
			room = len(p)
		}
		t.buf = append(t.buf, p[:room]...)
	}
	t.mu.Unlock()
	return len(p), nil
}

func (t *tailWriter) head() []byte { t.mu.Lock(); defer t.mu.Unlock(); return t.buf }

// LibraryFrame returns the innermost library function found on any goroutine stack of a full dump.
func LibraryFrame(dump string) string {
	for _, l := range strings.Split(dump, "\n") {
		if strings.HasPrefix(l, "github.com/influxdata/influxql.") {
			fn := strings.TrimPrefix(l, "github.com/influxdata/influxql.")
			if k := strings.LastIndex(fn, "("); k > 0 {
				fn = fn[:k]
			}
			return fn
		}
	}
	return ""
}
