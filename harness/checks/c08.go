package checks

import (
	"encoding/json"
	"fmt"
	"math"
	"math/big"
	"sort"
	"strconv"
	"strings"
	"sync"
	"time"
	"verif/harness/gram"

	"github.com/influxdata/influxql"

	"verif/harness/astx"
	"verif/harness/ev"
)

// C08 — durations are parsed exactly or rejected; formatting is invertible.

type c08unit struct {
	text string
	ns   int64
}

var c08units = []c08unit{{"ns", 1}, {"u", 1e3}, {"µ", 1e3}, {"ms", 1e6}, {"s", 1e9}, {"m", 60e9}, {"h", 3600e9}, {"d", 86400e9}, {"w", 604800e9}}

type c08comp struct {
	N    string `json:"n"` // decimal text (may exceed int64)
	Unit int    `json:"unit"`
}

// c08Case: Kind "parse" (Neg, Comps), "format" (D), "stmt" (Neg, Comps, Pos).
type c08Case struct {
	Kind  string    `json:"kind"`
	Neg   bool      `json:"neg,omitempty"`
	Plus  bool      `json:"plus,omitempty"` // an explicit plus sign in front (statement slots that take a sign)
	Comps []c08comp `json:"comps,omitempty"`
	D     int64     `json:"d,omitempty"`
	Pos   int       `json:"pos,omitempty"`
	Raw   []byte    `json:"raw,omitempty"`
	A, B  string    `json:",omitempty"` // Kind "multi": the two spellings written into template Pos of c08multi
}

// c08multi: texts with several duration literals. Each literal yields its own written value whatever stands in the other
// slots, in whatever order the clauses come, and however often the same spelling occurs (with or without a sign).
var c08multi = []struct {
	tmpl  string
	entry int // 0 ParseQuery, 1 ParseStatement, 2 ParseExpr
	want  func(a, b time.Duration) []time.Duration
}{
	{"ALTER RETENTION POLICY p ON d SHARD DURATION %[1]s DURATION %[2]s", 1, func(a, b time.Duration) []time.Duration { return []time.Duration{b, a} }},
	{"ALTER RETENTION POLICY p ON d DURATION %[1]s SHARD DURATION %[2]s", 1, func(a, b time.Duration) []time.Duration { return []time.Duration{a, b} }},
	{"ALTER RETENTION POLICY p ON d SHARD DURATION %[1]s REPLICATION 2 DURATION %[2]s DEFAULT", 1, func(a, b time.Duration) []time.Duration { return []time.Duration{b, a} }},
	{"CREATE RETENTION POLICY p ON d DURATION %[1]s REPLICATION 1 SHARD DURATION %[2]s", 1, func(a, b time.Duration) []time.Duration { return []time.Duration{a, b} }},
	{"CREATE DATABASE d WITH DURATION %[1]s SHARD DURATION %[2]s", 1, func(a, b time.Duration) []time.Duration { return []time.Duration{a, b} }},
	{"SELECT mean(x) FROM m WHERE time > now() - %[1]s GROUP BY time(%[2]s, -%[1]s)", 1, func(a, b time.Duration) []time.Duration { return []time.Duration{a, b, -a} }},
	{"SELECT mean(x) FROM m WHERE time > -%[1]s AND time < %[1]s GROUP BY time(%[2]s, %[1]s)", 1, func(a, b time.Duration) []time.Duration { return []time.Duration{-a, a, b, a} }},
	{"%[1]s - -%[1]s + %[2]s - -%[2]s", 2, func(a, b time.Duration) []time.Duration { return []time.Duration{a, -a, b, -b} }},
	{"SELECT x FROM m WHERE time > -%[1]s; SELECT mean(x) FROM m WHERE time < %[2]s GROUP BY time(%[1]s)", 0, func(a, b time.Duration) []time.Duration { return []time.Duration{-a, b, a} }},
}

var c08multiSpellings = []string{"1h", "2d", "15m", "1w", "90m", "1h30m", "0s"}

func c08multiEval(c c08Case) []ev.Finding {
	if c.Pos < 0 || c.Pos >= len(c08multi) {
		return nil
	}
	m := c08multi[c.Pos]
	a, errA := gram.ParseDur(c.A)
	b, errB := gram.ParseDur(c.B)
	if errA != nil || errB != nil {
		return nil
	}
	text := fmt.Sprintf(m.tmpl, c.A, c.B)
	var node influxql.Node
	var err error
	if p, st := try(func() {
		switch m.entry {
		case 0:
			node, err = influxql.ParseQuery(text)
		case 1:
			node, err = influxql.ParseStatement(text)
		default:
			node, err = influxql.ParseExpr(text)
		}
	}); p != nil {
		return []ev.Finding{{Sig: "panic:parse", Witness: text, Detail: fmt.Sprint(p) + st, Case: c}}
	}
	if err != nil {
		return nil // a rejection is allowed by this property (acceptance is C01's)
	}
	var got []time.Duration
	switch s := node.(type) {
	case *influxql.AlterRetentionPolicyStatement:
		for _, d := range []*time.Duration{s.Duration, s.ShardGroupDuration} {
			if d == nil {
				got = append(got, -1)
			} else {
				got = append(got, *d)
			}
		}
	case *influxql.CreateRetentionPolicyStatement:
		got = []time.Duration{s.Duration, s.ShardGroupDuration}
	case *influxql.CreateDatabaseStatement:
		got = []time.Duration{-1, s.RetentionPolicyShardGroupDuration}
		if s.RetentionPolicyDuration != nil {
			got[0] = *s.RetentionPolicyDuration
		}
	default:
		influxql.WalkFunc(node, func(n influxql.Node) {
			if d, ok := n.(*influxql.DurationLiteral); ok {
				got = append(got, d.Val)
			}
		})
	}
	want := m.want(a, b)
	key := func(ds []time.Duration) string {
		x := append([]time.Duration{}, ds...)
		if m.entry != 1 || len(x) != 2 {
			sort.Slice(x, func(i, j int) bool { return x[i] < x[j] }) // the walk order is not part of the claim, the values are
		}
		return fmt.Sprint(x)
	}
	if key(got) != key(want) {
		return []ev.Finding{{Sig: fmt.Sprintf("stmt:literals-influence-each-other:template-%d", c.Pos), Witness: text, Detail: fmt.Sprintf("the duration literals of the result are %v, written were %v", got, want), Case: c}}
	}
	return nil
}

func (c c08Case) spelling() string {
	var b strings.Builder
	if c.Neg {
		b.WriteByte('-')
	} else if c.Plus {
		b.WriteByte('+')
	}
	for _, k := range c.Comps {
		b.WriteString(k.N)
		b.WriteString(c08units[k.Unit].text)
	}
	return b.String()
}

func (c c08Case) exact() *big.Int {
	sum := new(big.Int)
	for _, k := range c.Comps {
		n, _ := new(big.Int).SetString(k.N, 10)
		sum.Add(sum, n.Mul(n, big.NewInt(c08units[k.Unit].ns)))
	}
	if c.Neg {
		sum.Neg(sum)
	}
	return sum
}

var (
	bigMin = big.NewInt(math.MinInt64)
	bigMax = big.NewInt(math.MaxInt64)
)

func fitsInt64(x *big.Int) bool { return x.Cmp(bigMin) >= 0 && x.Cmp(bigMax) <= 0 }

// statement positions a duration literal can take
type c08pos struct {
	name    string
	tmpl    string // %s = the duration spelling (unsigned); sign handled per position
	signed  bool   // position accepts a leading '-' (expression context)
	extract func(s influxql.Statement) (time.Duration, bool)
}

func durOf(e influxql.Expr) (time.Duration, bool) {
	switch e := e.(type) {
	case *influxql.DurationLiteral:
		return e.Val, true
	}
	return 0, false
}

var c08positions = []c08pos{
	{"CREATE DATABASE … DURATION", "CREATE DATABASE d WITH DURATION %s", false, func(s influxql.Statement) (time.Duration, bool) {
		x := s.(*influxql.CreateDatabaseStatement)
		if x.RetentionPolicyDuration == nil {
			return 0, false
		}
		return *x.RetentionPolicyDuration, true
	}},
	{"CREATE DATABASE … SHARD DURATION", "CREATE DATABASE d WITH SHARD DURATION %s", false, func(s influxql.Statement) (time.Duration, bool) {
		return s.(*influxql.CreateDatabaseStatement).RetentionPolicyShardGroupDuration, true
	}},
	{"CREATE DATABASE … FUTURE LIMIT", "CREATE DATABASE d WITH FUTURE LIMIT %s", false, func(s influxql.Statement) (time.Duration, bool) {
		x := s.(*influxql.CreateDatabaseStatement)
		if x.FutureWriteLimit == nil {
			return 0, false
		}
		return *x.FutureWriteLimit, true
	}},
	{"CREATE DATABASE … PAST LIMIT", "CREATE DATABASE d WITH PAST LIMIT %s NAME n", false, func(s influxql.Statement) (time.Duration, bool) {
		x := s.(*influxql.CreateDatabaseStatement)
		if x.PastWriteLimit == nil {
			return 0, false
		}
		return *x.PastWriteLimit, true
	}},
	{"CREATE RETENTION POLICY … DURATION", "CREATE RETENTION POLICY p ON d DURATION %s REPLICATION 1", false, func(s influxql.Statement) (time.Duration, bool) {
		return s.(*influxql.CreateRetentionPolicyStatement).Duration, true
	}},
	{"CREATE RETENTION POLICY … SHARD DURATION", "CREATE RETENTION POLICY p ON d DURATION 1h REPLICATION 1 SHARD DURATION %s DEFAULT", false, func(s influxql.Statement) (time.Duration, bool) {
		return s.(*influxql.CreateRetentionPolicyStatement).ShardGroupDuration, true
	}},
	{"CREATE RETENTION POLICY … FUTURE LIMIT", "CREATE RETENTION POLICY p ON d DURATION 1h REPLICATION 1 FUTURE LIMIT %s", false, func(s influxql.Statement) (time.Duration, bool) {
		return s.(*influxql.CreateRetentionPolicyStatement).FutureWriteLimit, true
	}},
	{"CREATE RETENTION POLICY … PAST LIMIT", "CREATE RETENTION POLICY p ON d DURATION 1h REPLICATION 1 PAST LIMIT %s", false, func(s influxql.Statement) (time.Duration, bool) {
		return s.(*influxql.CreateRetentionPolicyStatement).PastWriteLimit, true
	}},
	{"ALTER RETENTION POLICY … DURATION", "ALTER RETENTION POLICY p ON d DURATION %s", false, func(s influxql.Statement) (time.Duration, bool) {
		x := s.(*influxql.AlterRetentionPolicyStatement)
		if x.Duration == nil {
			return 0, false
		}
		return *x.Duration, true
	}},
	{"ALTER RETENTION POLICY … SHARD DURATION", "ALTER RETENTION POLICY p ON d SHARD DURATION %s", false, func(s influxql.Statement) (time.Duration, bool) {
		x := s.(*influxql.AlterRetentionPolicyStatement)
		if x.ShardGroupDuration == nil {
			return 0, false
		}
		return *x.ShardGroupDuration, true
	}},
	{"ALTER RETENTION POLICY … PAST LIMIT", "ALTER RETENTION POLICY p ON d PAST LIMIT %s", false, func(s influxql.Statement) (time.Duration, bool) {
		x := s.(*influxql.AlterRetentionPolicyStatement)
		if x.PastWriteLimit == nil {
			return 0, false
		}
		return *x.PastWriteLimit, true
	}},
	{"RESAMPLE EVERY", "CREATE CONTINUOUS QUERY q ON d RESAMPLE EVERY %s BEGIN SELECT f INTO t FROM m END", false, func(s influxql.Statement) (time.Duration, bool) {
		return s.(*influxql.CreateContinuousQueryStatement).ResampleEvery, true
	}},
	{"RESAMPLE FOR", "CREATE CONTINUOUS QUERY q ON d RESAMPLE FOR %s BEGIN SELECT f INTO t FROM m END", false, func(s influxql.Statement) (time.Duration, bool) {
		return s.(*influxql.CreateContinuousQueryStatement).ResampleFor, true
	}},
	{"GROUP BY time()", "SELECT mean(f) FROM m GROUP BY time(%s)", true, func(s influxql.Statement) (time.Duration, bool) {
		x := s.(*influxql.SelectStatement)
		if len(x.Dimensions) != 1 {
			return 0, false
		}
		c, ok := x.Dimensions[0].Expr.(*influxql.Call)
		if !ok || len(c.Args) != 1 {
			return 0, false
		}
		return durOf(c.Args[0])
	}},
	{"GROUP BY time(,offset)", "SELECT mean(f) FROM m GROUP BY time(1h, %s)", true, func(s influxql.Statement) (time.Duration, bool) {
		x := s.(*influxql.SelectStatement)
		if len(x.Dimensions) != 1 {
			return 0, false
		}
		c, ok := x.Dimensions[0].Expr.(*influxql.Call)
		if !ok || len(c.Args) != 2 {
			return 0, false
		}
		return durOf(c.Args[1])
	}},
	{"WHERE literal", "SELECT f FROM m WHERE time > now() - %s", true, func(s influxql.Statement) (time.Duration, bool) {
		x := s.(*influxql.SelectStatement)
		b, ok := x.Condition.(*influxql.BinaryExpr)
		if !ok {
			return 0, false
		}
		b2, ok := b.RHS.(*influxql.BinaryExpr)
		if !ok {
			return 0, false
		}
		return durOf(b2.RHS)
	}},
	{"field literal", "SELECT f + %s FROM m", true, func(s influxql.Statement) (time.Duration, bool) {
		x := s.(*influxql.SelectStatement)
		b, ok := x.Fields[0].Expr.(*influxql.BinaryExpr)
		if !ok {
			return 0, false
		}
		return durOf(b.RHS)
	}},
}

func c08eval(c c08Case) []ev.Finding {
	switch c.Kind {
	case "multi":
		return c08multiEval(c)
	case "raw":
		if p, st := try(func() { _, _ = influxql.ParseDuration(string(c.Raw)) }); p != nil {
			return []ev.Finding{{Sig: "panic:ParseDuration", Witness: fmt.Sprintf("%q", string(c.Raw)), Detail: fmt.Sprint(p) + st, Case: c}}
		}
	case "parse":
		sp := c.spelling()
		ex := c.exact()
		var d time.Duration
		var err error
		if p, st := try(func() { d, err = influxql.ParseDuration(sp) }); p != nil {
			return []ev.Finding{{Sig: "panic:ParseDuration", Witness: sp, Detail: fmt.Sprint(p) + st, Case: c}}
		}
		if err == nil && (!fitsInt64(ex) || int64(d) != ex.Int64()) {
			sig := "ParseDuration:wrong-value"
			if !fitsInt64(ex) {
				sig = "ParseDuration:overflow-accepted"
				if c.Neg {
					sig += ":negative"
				}
			}
			return []ev.Finding{{Sig: sig, Witness: sp, Detail: fmt.Sprintf("ParseDuration(%q) = %d (%v), exact sum is %s", sp, int64(d), d, ex), Case: c, Rank: len(c.Comps)}}
		}
	case "format":
		d := time.Duration(c.D)
		var s string
		if p, st := try(func() { s = influxql.FormatDuration(d) }); p != nil {
			return []ev.Finding{{Sig: "panic:FormatDuration", Witness: fmt.Sprint(c.D), Detail: fmt.Sprint(p) + st, Case: c}}
		}
		back, err := influxql.ParseDuration(s)
		if err != nil || back != d {
			return []ev.Finding{{Sig: "FormatDuration:not-invertible", Witness: fmt.Sprint(c.D), Detail: fmt.Sprintf("FormatDuration(%d) = %q parses to %d, %v", c.D, s, int64(back), err), Case: c}}
		}
		// shape: <n><unit>, n*unit == d, no larger unit divides d, zero is 0s
		if c.D == 0 {
			if s != "0s" {
				return []ev.Finding{{Sig: "FormatDuration:zero", Witness: "0", Detail: "FormatDuration(0) = " + s, Case: c}}
			}
			return nil
		}
		i := 0
		if strings.HasPrefix(s, "-") {
			i = 1
		}
		j := i
		for j < len(s) && s[j] >= '0' && s[j] <= '9' {
			j++
		}
		n, perr := strconv.ParseInt(s[:j], 10, 64)
		unit := int64(0)
		for _, u := range c08units {
			if u.text == s[j:] {
				unit = u.ns
			}
		}
		if perr != nil || unit == 0 || j == i {
			return []ev.Finding{{Sig: "FormatDuration:shape", Witness: fmt.Sprint(c.D), Detail: fmt.Sprintf("FormatDuration(%d) = %q is not <n><unit>", c.D, s), Case: c}}
		}
		if new(big.Int).Mul(big.NewInt(n), big.NewInt(unit)).Cmp(big.NewInt(c.D)) != 0 {
			return []ev.Finding{{Sig: "FormatDuration:value", Witness: fmt.Sprint(c.D), Detail: fmt.Sprintf("FormatDuration(%d) = %q", c.D, s), Case: c}}
		}
		for _, u := range c08units {
			if u.ns > unit && c.D%u.ns == 0 {
				return []ev.Finding{{Sig: "FormatDuration:not-largest-unit", Witness: fmt.Sprint(c.D), Detail: fmt.Sprintf("FormatDuration(%d) = %q although %s divides it", c.D, s, u.text), Case: c}}
			}
		}
	case "stmt":
		p := c08positions[c.Pos]
		if c.Neg && !p.signed {
			return nil
		}
		sp := c.spelling()
		text := fmt.Sprintf(p.tmpl, sp)
		ex := c.exact()
		var stmt influxql.Statement
		var err error
		if pn, st := try(func() { stmt, err = influxql.ParseStatement(text) }); pn != nil {
			return []ev.Finding{{Sig: "panic:ParseStatement", Witness: text, Detail: fmt.Sprint(pn) + st, Case: c}}
		}
		if err != nil {
			return nil
		}
		d, ok := p.extract(stmt)
		if !ok {
			return []ev.Finding{{Sig: "stmt:slot-missing:" + ev.SigSafe(p.name), Witness: text, Detail: "the duration slot is not filled: " + astx.Dump(astx.Denoted, stmt), Case: c}}
		}
		if !fitsInt64(ex) || int64(d) != ex.Int64() {
			sig := "stmt:wrong-value:" + ev.SigSafe(p.name)
			if !fitsInt64(ex) {
				sig = "stmt:overflow-accepted"
				if c.Neg {
					sig += ":negative"
				}
			}
			return []ev.Finding{{Sig: sig, Witness: text, Detail: fmt.Sprintf("%s holds %d (%v), exact sum is %s", p.name, int64(d), d, ex), Case: c, Rank: len(c.Comps)}}
		}
	}
	return nil
}

func c08ladder(unit int64, full bool) []string {
	q := new(big.Int).Div(bigMax, big.NewInt(unit))
	two64 := new(big.Int).Lsh(big.NewInt(1), 64)
	q2 := new(big.Int).Div(two64, big.NewInt(unit))
	add := func(x *big.Int, d int64) *big.Int { return new(big.Int).Add(x, big.NewInt(d)) }
	vals := []*big.Int{big.NewInt(1), big.NewInt(0), q, add(q, 1), add(new(big.Int).Mul(q, big.NewInt(2)), 2), q2, add(q2, 1), new(big.Int).Div(q, big.NewInt(2))}
	if full {
		vals = append(vals, big.NewInt(59), big.NewInt(60), big.NewInt(999), big.NewInt(1000), add(q, -1),
			new(big.Int).Mul(q, big.NewInt(2)), add(new(big.Int).Mul(q, big.NewInt(2)), 1), add(q2, -1),
			add(new(big.Int).Div(q, big.NewInt(2)), 1), bigMax, add(bigMax, 1), new(big.Int).Mul(q2, big.NewInt(3)))
	}
	seen := map[string]bool{}
	var out []string
	for _, v := range vals {
		if v.Sign() < 0 {
			continue
		}
		s := v.String()
		if !seen[s] {
			seen[s] = true
			out = append(out, s)
		}
	}
	// counts written with leading zeros are decimal all the same (010 is ten, 08 is eight)
	out = append(out, "010", "08")
	if full {
		out = append(out, "0100", "00", "007", "0"+q.String())
	}
	return out
}

func init() {
	register(&Check{ID: "C08", Run: c08run, Replay: func(raw json.RawMessage) []ev.Finding {
		var c c08Case
		if json.Unmarshal(raw, &c) != nil {
			return nil
		}
		return c08eval(c)
	}})
}

func c08run(r *ev.Run) {
	th := thorough(r)
	var accepted, rejected int64
	var mu sync.Mutex
	do := func(c c08Case, label string) {
		n := r.Eval()
		r.Trans(int64(len(c.Comps)) + 1)
		fs := c08eval(c)
		nontrivial := true
		if c.Kind == "parse" {
			_, err := influxql.ParseDuration(c.spelling())
			mu.Lock()
			if err == nil {
				accepted++
			} else {
				rejected++
				nontrivial = false
			}
			mu.Unlock()
		}
		r.State(astx.HashString(label), nontrivial)
		r.Sample(n, func() interface{} { return label })
		for _, f := range fs {
			r.Report(f)
		}
	}
	// all component alternatives
	type alt struct{ c c08comp }
	var full, small []c08comp
	for ui, u := range c08units {
		for _, n := range c08ladder(u.ns, true) {
			full = append(full, c08comp{n, ui})
		}
		for _, n := range c08ladder(u.ns, false) {
			small = append(small, c08comp{n, ui})
		}
	}
	r.Set("component_alphabet_full", len(full))
	r.Set("component_alphabet_small", len(small))
	// (a) ParseDuration spellings
	for _, neg := range []bool{false, true} {
		neg := neg
		parallelFor(len(full), func(i int) {
			c := c08Case{Kind: "parse", Neg: neg, Comps: []c08comp{full[i]}}
			do(c, "parse "+c.spelling())
		})
		parallelFor(len(full), func(i int) {
			for j := range full {
				c := c08Case{Kind: "parse", Neg: neg, Comps: []c08comp{full[i], full[j]}}
				do(c, "parse "+c.spelling())
			}
		})
		three := small
		if !th {
			three = nil
			for _, k := range small { // quick: 3 components over a still smaller alphabet
				if k.Unit == 0 || k.Unit == 5 || k.Unit == 6 || k.Unit == 8 {
					three = append(three, k)
				}
			}
		}
		parallelFor(len(three), func(i int) {
			for j := range three {
				for k := range three {
					c := c08Case{Kind: "parse", Neg: neg, Comps: []c08comp{three[i], three[j], three[k]}}
					do(c, "parse "+c.spelling())
				}
			}
		})
	}
	// malformed spellings: ParseDuration must return an error, not panic
	for _, sp := range []string{"", "1", "h", "-", "-1", "1x", "10\xc2", "1m30\xc2", "10\xb5", "1\xff", "1h\x00", "٣h", "1µ", "1µs", "1us", "01h", "1h-1m", "+1h", "1 h", "1h ", "9223372036854775808ns", "1e3s", "1.5h", "0x10s"} {
		sp := sp
		n := r.Eval()
		r.State(astx.HashString("malformed "+sp), false)
		r.Sample(n, func() interface{} { return "malformed " + sp })
		if p, st := try(func() { _, _ = influxql.ParseDuration(sp) }); p != nil {
			r.Report(ev.Finding{Sig: "panic:ParseDuration", Witness: fmt.Sprintf("%q", sp), Detail: fmt.Sprint(p) + st, Case: c08Case{Kind: "raw", Raw: []byte(sp)}})
		}
	}
	// (b) formatting
	lim := int64(100000)
	if th {
		lim = 2000000
	}
	span := int(2*lim + 1)
	parallelFor(64, func(w int) {
		for i := w; i < span; i += 64 {
			d := int64(i) - lim
			do(c08Case{Kind: "format", D: d}, "format "+strconv.FormatInt(d, 10))
		}
	})
	var fvals []int64
	for _, u := range c08units {
		for _, ks := range c08ladder(u.ns, true) {
			k, ok := new(big.Int).SetString(ks, 10)
			if !ok {
				continue
			}
			p := new(big.Int).Mul(k, big.NewInt(u.ns))
			for _, dd := range []int64{-1, 0, 1} {
				x := new(big.Int).Add(p, big.NewInt(dd))
				if fitsInt64(x) && x.Int64() != math.MinInt64 {
					fvals = append(fvals, x.Int64())
					if x.Int64() != 0 {
						fvals = append(fvals, -x.Int64())
					}
				}
			}
		}
	}
	fvals = append(fvals, math.MaxInt64, -math.MaxInt64, math.MinInt64+1)
	for _, d := range fvals {
		do(c08Case{Kind: "format", D: d}, "format "+strconv.FormatInt(d, 10))
	}
	// (c) literals inside statements
	two := small
	parallelFor(len(c08positions), func(pi int) {
		for _, neg := range []bool{false, true} {
			if neg && !c08positions[pi].signed {
				continue
			}
			for i := range full {
				c := c08Case{Kind: "stmt", Neg: neg, Comps: []c08comp{full[i]}, Pos: pi}
				do(c, "stmt "+fmt.Sprintf(c08positions[pi].tmpl, c.spelling()))
				if !neg && c08positions[pi].signed {
					c.Plus = true
					do(c, "stmt "+fmt.Sprintf(c08positions[pi].tmpl, c.spelling()))
				}
			}
			for i := range two {
				for j := range two {
					c := c08Case{Kind: "stmt", Neg: neg, Comps: []c08comp{two[i], two[j]}, Pos: pi}
					do(c, "stmt "+fmt.Sprintf(c08positions[pi].tmpl, c.spelling()))
				}
			}
			// three components: over the first, a middle and the last count of each unit's ladder (quick: four units)
			var three3 []c08comp
			for ui := range c08units {
				if !th && !(ui == 0 || ui == 5 || ui == 6 || ui == 8) {
					continue
				}
				var of []c08comp
				for _, k := range two {
					if k.Unit == ui {
						of = append(of, k)
					}
				}
				if len(of) > 0 {
					three3 = append(three3, of[0], of[len(of)/2], of[len(of)-1])
				}
			}
			for i := range three3 {
				for j := range three3 {
					for k := range three3 {
						c := c08Case{Kind: "stmt", Neg: neg, Comps: []c08comp{three3[i], three3[j], three3[k]}, Pos: pi}
						do(c, "stmt "+fmt.Sprintf(c08positions[pi].tmpl, c.spelling()))
					}
				}
			}
		}
	})
	for pi := range c08multi {
		for _, a := range c08multiSpellings {
			for _, b := range c08multiSpellings {
				c := c08Case{Kind: "multi", Pos: pi, A: a, B: b}
				do(c, "multi "+fmt.Sprintf(c08multi[pi].tmpl, a, b))
			}
		}
	}
	r.Set("texts_with_several_duration_literals", len(c08multi)*len(c08multiSpellings)*len(c08multiSpellings))
	r.Set("spellings_accepted", accepted)
	r.Set("spellings_rejected", rejected)
	r.Set("statement_positions", len(c08positions))
	r.Set("format_range", fmt.Sprintf("[-%d,%d] plus %d boundary values", lim, lim, len(fvals)))
	r.Rule = "ParseDuration on every 1-, 2- and 3-component spelling over a per-unit boundary ladder (around MaxInt64/unit and 2^64/unit), both signs, against math/big; FormatDuration on every d in the stated range and on k*unit, k*unit±1; the same spellings (one and two components, and three components over three counts per unit) as literals in every duration slot of a statement. state = distinct spelling/value/statement; non-trivial = spelling accepted by ParseDuration (or a formatted value / statement case)"
	r.Assumptions = []string{"math/big is the arithmetic reference", "a rejected in-range spelling is not a C08 violation (the property allows an error); acceptance of legal durations is C01's"}
}
