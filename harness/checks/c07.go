package checks

import (
	"encoding/json"
	"fmt"
	"math"
	"regexp"
	"strconv"
	"strings"

	"github.com/influxdata/influxql"

	"verif/harness/astx"
	"verif/harness/ev"
	"verif/harness/gram"
	"verif/harness/xplore"
)

// C07 — bound parameters are substituted as single tokens, never re-lexed.

const cParam = 3 // cost class: one more placeholder

type c07binding struct {
	name  string
	value func() interface{} // fresh value each time (maps are consumed by the binder)
	ok    bool               // the reference model of binding: bindable?
	kind  gram.Kind          // token kind it turns into
	text  string             // literal value (token text)
	kw    string             // for booleans: TRUE / FALSE
}

func fmtDurSpec(d int64) string {
	type u struct {
		s string
		n int64
	}
	if d == 0 {
		return "0s"
	}
	for _, x := range []u{{"w", 604800e9}, {"d", 86400e9}, {"h", 3600e9}, {"m", 60e9}, {"s", 1e9}, {"ms", 1e6}, {"u", 1e3}} {
		if d%x.n == 0 {
			return strconv.FormatInt(d/x.n, 10) + x.s
		}
	}
	return strconv.FormatInt(d, 10) + "ns"
}

func c07bindings() []c07binding {
	var out []c07binding
	add := func(name string, v func() interface{}, ok bool, k gram.Kind, text string) {
		out = append(out, c07binding{name: name, value: v, ok: ok, kind: k, text: text})
	}
	for _, s := range []string{"v", "a' OR 1=1 --", "x; DROP DATABASE d", "/* */", "$q", "select", "1h", "new\nline", `back\slash`, "", `dq"dq`} {
		s := s
		add(fmt.Sprintf("string %q", s), func() interface{} { return s }, true, gram.STR, s)
		add(fmt.Sprintf("{string: %q}", s), func() interface{} { return map[string]interface{}{"string": s} }, true, gram.STR, s)
	}
	// a float written out as a literal must lex as a NUMBER, i.e. carry a decimal point
	fl := func(f float64) string {
		t := strconv.FormatFloat(f, 'f', -1, 64)
		if !strings.Contains(t, ".") {
			t += ".0"
		}
		return t
	}
	for _, f := range []float64{1.5, -2.5, 0, 1e21, 0.0000001, 3.141592653589793, 16777217, 0.1, 1.7976931348623157e308} {
		f := f
		add(fmt.Sprintf("float %v", f), func() interface{} { return f }, true, gram.NUM, fl(f))
	}
	add("{float: 2.5}", func() interface{} { return map[string]interface{}{"float": 2.5} }, true, gram.NUM, "2.5")
	add("{number: int64 3}", func() interface{} { return map[string]interface{}{"number": int64(3)} }, true, gram.NUM, "3.0")
	for _, i := range []int64{7, -7, 0, math.MaxInt64, math.MinInt64} {
		i := i
		add(fmt.Sprintf("int64 %d", i), func() interface{} { return i }, true, gram.INT, strconv.FormatInt(i, 10))
	}
	add("{integer: 9}", func() interface{} { return map[string]interface{}{"integer": int64(9)} }, true, gram.INT, "9")
	add("{int: 9}", func() interface{} { return map[string]interface{}{"int": int64(9)} }, true, gram.INT, "9")
	out = append(out, c07binding{name: "bool true", value: func() interface{} { return true }, ok: true, kind: gram.KW, kw: "TRUE"})
	out = append(out, c07binding{name: "bool false", value: func() interface{} { return false }, ok: true, kind: gram.KW, kw: "FALSE"})
	for _, s := range []string{"nm", "my db", `q"t`, "select", "1h", "", "a.b", "desc", "ASC", "true", "time"} {
		s := s
		add(fmt.Sprintf("{ident: %q}", s), func() interface{} { return map[string]interface{}{"ident": s} }, true, gram.IDENT, s)
	}
	add(`{identifier: "nm2"}`, func() interface{} { return map[string]interface{}{"identifier": "nm2"} }, true, gram.IDENT, "nm2")
	for _, s := range []string{"re", "a/b", `\d+`, "(", "/a/", "//", "/var/log/"} {
		s := s
		add(fmt.Sprintf("{regex: %q}", s), func() interface{} { return map[string]interface{}{"regex": s} }, true, gram.REGEX, s)
	}
	for _, s := range []string{"1h", "90m", "5x", "", "1h30m"} {
		s := s
		add(fmt.Sprintf("{duration: %q}", s), func() interface{} { return map[string]interface{}{"duration": s} }, true, gram.DUR, s)
	}
	add("{duration: int64 3600e9}", func() interface{} { return map[string]interface{}{"duration": int64(3600e9)} }, true, gram.DUR, fmtDurSpec(3600e9))
	add("{duration: int64 1500e6}", func() interface{} { return map[string]interface{}{"duration": int64(1500e6)} }, true, gram.DUR, fmtDurSpec(1500e6))
	_ = fl
	add(`json.Number "1.5"`, func() interface{} { return json.Number("1.5") }, true, gram.NUM, "1.5")
	add(`json.Number "7"`, func() interface{} { return json.Number("7") }, true, gram.INT, "7")
	add(`{int: json.Number "8"}`, func() interface{} { return map[string]interface{}{"int": json.Number("8")} }, true, gram.INT, "8")
	// unbindable
	bad := func(name string, v func() interface{}) {
		out = append(out, c07binding{name: name, value: v, ok: false})
	}
	bad(`json.Number "abc"`, func() interface{} { return json.Number("abc") })
	bad(`json.Number 2^63`, func() interface{} { return json.Number("9223372036854775808") })
	bad(`json.Number MaxUint64`, func() interface{} { return json.Number("18446744073709551615") })
	bad(`{number: json.Number 2^63+1}`, func() interface{} { return map[string]interface{}{"number": json.Number("9223372036854775809")} })
	bad(`json.Number "1.5.5"`, func() interface{} { return json.Number("1.5.5") })
	bad("int 5", func() interface{} { return 5 })
	bad("nil", func() interface{} { return nil })
	bad("[]string", func() interface{} { return []string{"a"} })
	bad("uint64", func() interface{} { return uint64(5) })
	bad("float32", func() interface{} { return float32(1.5) })
	bad("{unknown: 1}", func() interface{} { return map[string]interface{}{"unknown": int64(1)} })
	bad("{two entries}", func() interface{} { return map[string]interface{}{"string": "a", "ident": "b"} })
	bad("{}", func() interface{} { return map[string]interface{}{} })
	bad("{ident: 5}", func() interface{} { return map[string]interface{}{"ident": int64(5)} })
	bad("{regex: 5}", func() interface{} { return map[string]interface{}{"regex": int64(5)} })
	bad("{string: 5}", func() interface{} { return map[string]interface{}{"string": int64(5)} })
	bad("{float: 'x'}", func() interface{} { return map[string]interface{}{"float": "x"} })
	bad("{integer: 1.5}", func() interface{} { return map[string]interface{}{"integer": 1.5} })
	bad("{duration: 1.5}", func() interface{} { return map[string]interface{}{"duration": 1.5} })
	bad("{string: {nested}}", func() interface{} { return map[string]interface{}{"string": map[string]interface{}{"a": "b"}} })
	// an object whose entry is itself a well-formed object of a fitting kind: still not a value
	for _, outer := range []string{"string", "identifier", "regex", "duration", "integer", "float", "number"} {
		outer := outer
		for _, inner := range []struct {
			k string
			v interface{}
		}{{"string", "cpu"}, {"integer", int64(10)}, {"float", 1.5}, {"string", "1h"}} {
			inner := inner
			bad(fmt.Sprintf("{%s: {%s: %v}}", outer, inner.k, inner.v), func() interface{} {
				return map[string]interface{}{outer: map[string]interface{}{inner.k: inner.v}}
			})
		}
	}
	bad("{string: {string: {string: deep}}}", func() interface{} {
		return map[string]interface{}{"string": map[string]interface{}{"string": map[string]interface{}{"string": "deep"}}}
	})
	bad("<unbound>", nil)
	return out
}

var c07binds = c07bindings()

// c07body: a statement with 1..n value tokens replaced by placeholders and one binding per placeholder.
func c07body(c *xplore.Ctx) (text string, form string, fs []ev.Finding, skipped bool) {
	g := gram.New(c)
	g.NoValueAlts = true
	type sub struct {
		name string
		b    int
	}
	var subs []sub
	quotedName := false
	g.Hook = func(idx int, k gram.Kind, role, def string) (string, string) {
		if c.ChooseC(cParam, 2) == 0 {
			// template text that merely looks like a placeholder: a string, a quoted name or a regex spelled `$p1`
			// stays what it is, whatever is bound under p1
			if (k == gram.STR || k == gram.IDENT || k == gram.REGEX) && c.ChooseC(gram.CSpell, 2) == 1 {
				return "$p1", ""
			}
			return def, ""
		}
		name := fmt.Sprintf("p%d", len(subs)+1)
		if len(subs) == 0 {
			switch c.ChooseC(gram.CSpell, 4) {
			case 3:
				name = "$p9" // a name that itself starts with the marker: $"$p9" is looked up as `$p9`, not as `p9`
				quotedName = true
			case 1:
				name = "p q"
				quotedName = true
			case 2:
				name = "\x00" // a placeholder without a name: `$`; the value is bound under the empty name
			}
		}
		b := c.Free(len(c07binds))
		subs = append(subs, sub{name, b})
		return def, name
	}
	spec := gram.Statement(g)
	_ = quotedName
	if g.InvalidWhy != "" || len(subs) == 0 {
		return "", spec.Form, nil, true
	}
	ptoks := spec.Toks
	text = gram.Render(nil, ptoks)
	// the same statement with the literals written out
	itoks := make([]gram.Tok, len(ptoks))
	copy(itoks, ptoks)
	params := map[string]interface{}{}
	bindable, spellable := true, true
	var desc []string
	k := 0
	for i, t := range itoks {
		if t.K != gram.PARAM {
			continue
		}
		b := c07binds[subs[k].b]
		k++
		key := t.Text
		if key == "\x00" {
			key = ""
		}
		desc = append(desc, fmt.Sprintf("$%s=%s", key, b.name))
		if b.value != nil {
			params[key] = b.value()
		}
		if key == "" {
			bindable = false // an empty placeholder is an error whatever is bound under ""
			continue
		}
		if !b.ok {
			bindable = false
			continue
		}
		switch b.kind {
		case gram.KW:
			itoks[i] = gram.Tok{K: gram.KW, Text: b.kw, NoGap: t.NoGap}
		case gram.REGEX:
			if _, err := regexp.Compile(b.text); err != nil {
				spellable = false
			}
			itoks[i] = gram.Tok{K: gram.REGEX, Text: b.text, NoGap: t.NoGap}
		case gram.DUR:
			if _, err := gram.ParseDur(b.text); err != nil {
				spellable = false
			}
			itoks[i] = gram.Tok{K: gram.DUR, Text: b.text, NoGap: t.NoGap}
		default:
			itoks[i] = gram.Tok{K: b.kind, Text: b.text, NoGap: t.NoGap}
		}
	}
	inlined := gram.Render(nil, itoks)
	// Positions where the bound value has no literal spelling are only checked for totality:
	// a regex where the lexer does not look for one, and two placeholders glued into one dotted name
	// (written out, `0.0` is one number token, not two values).
	noSpelling := false
	k = 0
	lastParam := -10
	for i, t := range ptoks {
		if t.K != gram.PARAM {
			continue
		}
		b := c07binds[subs[k].b]
		k++
		if b.ok && b.kind == gram.REGEX && !strings.HasSuffix(t.Role, "regex") {
			noSpelling = true
		}
		if i-lastParam <= 3 && t.NoGap {
			noSpelling = true
		}
		lastParam = i
	}
	wit := fmt.Sprintf("%s  with %s", text, strings.Join(desc, ", "))
	cs := vecCase{Vector: c.Vector()}
	rank := c.TotalCost()*1000 + len(text)
	pos := "none"
	for _, t := range ptoks {
		if t.K == gram.PARAM {
			pos = t.Role
			break
		}
	}
	var q1 *influxql.Query
	var err1 error
	if p, st := try(func() {
		ps := influxql.NewParser(strings.NewReader(text))
		ps.SetParams(params)
		q1, err1 = ps.ParseQuery()
	}); p != nil {
		return wit, spec.Form, []ev.Finding{{Sig: "panic:parse-with-params:" + ev.SigSafe(pos), Witness: wit, Detail: fmt.Sprint(p) + "\n" + st, Case: cs, Rank: rank}}, false
	}
	// SetParams replaces the bindings: a parser that was first given other values for the same names (and one more)
	// must behave exactly like a fresh one
	{
		decoy := map[string]interface{}{"zz_decoy": int64(1)}
		for _, t := range ptoks {
			if t.K == gram.PARAM {
				key := t.Text
				if key == "\x00" {
					key = ""
				}
				decoy[key] = "decoy"
			}
		}
		var q3 *influxql.Query
		var err3 error
		if p, st := try(func() {
			ps := influxql.NewParser(strings.NewReader(text))
			ps.SetParams(decoy)
			ps.SetParams(params)
			q3, err3 = ps.ParseQuery()
		}); p != nil {
			return wit, spec.Form, []ev.Finding{{Sig: "panic:parse-after-second-SetParams:" + ev.SigSafe(pos), Witness: wit, Detail: fmt.Sprint(p) + "\n" + st, Case: cs, Rank: rank}}, false
		}
		if (err1 == nil) != (err3 == nil) || (err1 == nil && !astx.Equal(astx.Denoted, q1, q3)) {
			return wit, spec.Form, []ev.Finding{{Sig: "earlier-SetParams-shows-through:" + ev.SigSafe(pos), Witness: wit,
				Detail: fmt.Sprintf("fresh parser: %v / %v; parser that was first given %v and then the real bindings: %v / %v", q1, err1, decoy, q3, err3), Case: cs, Rank: rank}}, false
		}
	}
	// the bindings hold for every statement the parser reads, not only the first: the same text as the second and third
	// statement of a query, and read statement by statement from one parser
	{
		var q4 *influxql.Query
		var err4 error
		var third influxql.Statement
		var err5 error
		if p, st := try(func() {
			ps := influxql.NewParser(strings.NewReader("SHOW DATABASES; " + text + "; " + text))
			ps.SetParams(params)
			q4, err4 = ps.ParseQuery()
			ps = influxql.NewParser(strings.NewReader("SHOW DATABASES; " + text))
			ps.SetParams(params)
			if _, err5 = ps.ParseStatement(); err5 == nil {
				if tok, _, _ := ps.ScanIgnoreWhitespace(); tok == influxql.SEMICOLON {
					third, err5 = ps.ParseStatement()
				} else {
					err5 = fmt.Errorf("no semicolon after the first statement")
				}
			}
		}); p != nil {
			return wit, spec.Form, []ev.Finding{{Sig: "panic:parse-with-params-in-later-statement:" + ev.SigSafe(pos), Witness: wit, Detail: fmt.Sprint(p) + "\n" + st, Case: cs, Rank: rank}}, false
		}
		if err1 == nil && len(q1.Statements) == 1 {
			bad := ""
			switch {
			case err4 != nil:
				bad = fmt.Sprintf("as second and third statement of a query: %v", err4)
			case len(q4.Statements) != 3 || !astx.Equal(astx.Denoted, q1.Statements[0], q4.Statements[1]) || !astx.Equal(astx.Denoted, q1.Statements[0], q4.Statements[2]):
				bad = fmt.Sprintf("as second and third statement of a query it parses to %v", q4)
			case err5 != nil:
				bad = fmt.Sprintf("as the second ParseStatement call on one parser: %v", err5)
			case !astx.Equal(astx.Denoted, q1.Statements[0], third):
				bad = fmt.Sprintf("as the second ParseStatement call on one parser it parses to %v", third)
			}
			if bad != "" {
				return wit, spec.Form, []ev.Finding{{Sig: "bindings-lost-after-first-statement:" + ev.SigSafe(pos), Witness: wit,
					Detail: "alone the statement parses to " + q1.String() + "; " + bad, Case: cs, Rank: rank}}, false
			}
		}
	}
	// no bindings at all: a parser that was never given a map (the package-level functions, a bare NewParser) must reject
	// a placeholder like one whose map lacks the name
	if len(params) == 0 {
		var q0 *influxql.Query
		var err0 error
		var st0 influxql.Statement
		var err0s error
		if p, _ := try(func() {
			q0, err0 = influxql.ParseQuery(text)
			st0, err0s = influxql.NewParser(strings.NewReader(text)).ParseStatement()
		}); p == nil && (err0 == nil || err0s == nil) {
			return wit, spec.Form, []ev.Finding{{Sig: "unbound-placeholder-accepted-without-any-bindings:" + ev.SigSafe(pos), Witness: wit,
				Detail: fmt.Sprintf("ParseQuery without SetParams: %v / %v; ParseStatement: %v / %v", q0, err0, st0, err0s), Case: cs, Rank: rank}}, false
		}
	}
	if !bindable {
		if err1 == nil {
			return wit, spec.Form, []ev.Finding{{Sig: "unbindable-parameter-accepted:" + ev.SigSafe(pos), Witness: wit, Detail: "parse succeeded: " + q1.String(), Case: cs, Rank: rank}}, false
		}
		return wit, spec.Form, nil, false
	}
	if (err1 != nil && !spellable) || (bindable && noSpelling) {
		return wit, spec.Form, nil, false
	}
	q2, err2 := influxql.ParseQuery(inlined)
	switch {
	case err1 == nil && err2 == nil:
		if path, a, b := astx.Diff(astx.Denoted, q2, q1); path != "" {
			return wit, spec.Form, []ev.Finding{{Sig: "param-differs-from-literal:" + ev.SigSafe(pos) + ":" + astx.GenericPath(path), Witness: wit,
				Detail: fmt.Sprintf("with the literal written out (%q) the AST has %s at %s, with the parameter %s", inlined, a, path, b), Case: cs, Rank: rank}}, false
		}
	case err1 == nil && err2 != nil:
		// Not every bound value has a literal spelling at every position: a regex outside the positions where the
		// lexer looks for one, and a negative number directly after an explicit sign ("- -7" is a comment or an
		// error). There the property only requires that the slot's node carries the bound value.
		b0 := c07binds[subs[0].b]
		afterSign := false
		for i, t := range ptoks {
			if t.K == gram.PARAM && i > 0 && ptoks[i-1].K == gram.PUNCT && (ptoks[i-1].Text == "-" || ptoks[i-1].Text == "+") {
				afterSign = true
			}
		}
		if len(subs) == 1 && (b0.kind == gram.REGEX || (afterSign && strings.HasPrefix(b0.text, "-"))) {
			return wit, spec.Form, nil, false
		}
		if len(subs) > 1 {
			return wit, spec.Form, nil, false // pairs are only compared when the literal form parses
		}
		return wit, spec.Form, []ev.Finding{{Sig: "param-accepted-where-literal-rejected:" + ev.SigSafe(pos) + ":" + c07kindName(c07binds[subs[0].b]), Witness: wit,
			Detail: fmt.Sprintf("the parameter form parses to %q but the literal form %q is rejected: %v", q1.String(), inlined, err2), Case: cs, Rank: rank}}, false
	case err1 != nil && err2 == nil && spellable:
		return wit, spec.Form, []ev.Finding{{Sig: "literal-accepted-but-param-rejected:" + ev.SigSafe(pos) + ":" + c07kindName(c07binds[subs[0].b]), Witness: wit,
			Detail: fmt.Sprintf("the literal form %q parses but the parameter form fails: %v", inlined, err1), Case: cs, Rank: rank}}, false
	}
	return wit, spec.Form, nil, false
}

func c07kindName(b c07binding) string {
	switch b.kind {
	case gram.STR:
		return "string"
	case gram.NUM:
		return "number"
	case gram.INT:
		if strings.HasPrefix(b.text, "-") {
			return "negative-integer"
		}
		return "integer"
	case gram.KW:
		return "bool"
	case gram.IDENT:
		return "ident"
	case gram.REGEX:
		return "regex"
	case gram.DUR:
		return "duration"
	}
	return "other"
}

func init() {
	register(&Check{ID: "C07", Run: c07run, Replay: func(raw json.RawMessage) []ev.Finding {
		var c vecCase
		if json.Unmarshal(raw, &c) != nil {
			return nil
		}
		var out []ev.Finding
		xplore.Replay(func(x *xplore.Ctx) { _, _, out, _ = c07body(x) }, c.Vector)
		return out
	}})
}

func c07run(r *ev.Run) {
	sets := []boundSet{{"struct<=1, one placeholder x every binding", []int{1, 1, 0, 1}}}
	if thorough(r) {
		sets = []boundSet{{"struct<=2, one placeholder x every binding", []int{2, 1, 0, 1}}, {"struct<=1, two placeholders x every pair of bindings", []int{1, 0, 0, 2}}}
	}
	runGrammar(r, sets, c07body)
	r.Set("bindings", len(c07binds))
	r.Rule = fmt.Sprintf("every statement of the grammar model within the structural bound x every value token (identifier, string, integer, number, duration, regex: literal in WHERE, either side of operators, after unary minus, call argument, regex after =~ / FROM / WITH, measurement / policy / database segments, field, alias, LIMIT-like counts, durations, fill value, tz) replaced by $p (also $\"p q\") x each of %d bindings covering every branch of BindValue/bindObjectValue and string contents chosen to re-lex badly; oracle: unbindable/unbound => error; otherwise parameter form and literal-written-out form must both fail or give the same AST (through ParseQuery, so trailing text counts). state = (text, bindings); non-trivial = parsed and compared", len(c07binds))
}
