package checks

import (
	"encoding/json"
	"fmt"
	"strings"
	"sync/atomic"
	"verif/harness/gram"
	"verif/harness/xplore"

	"github.com/influxdata/influxql"

	"verif/harness/astx"
	"verif/harness/ev"
	"verif/harness/lexx"
)

// C05 — the lexer partitions its input and reports exact positions.

type c05Case struct {
	Bytes []byte `json:"bytes"`
	Text  string `json:"text"`
	Regex []int  `json:"regex"`          // at the i-th token that starts with '/', 1 = ScanRegex, 0 = Scan
	Long  int    `json:"long,omitempty"` // a generated text of this many lines (names, blanks, a comment now and then)
}

// c05long: a text of a few megabytes tiles like a short one, and its last token stands on its last line.
func c05long(lines int) []ev.Finding {
	var b strings.Builder
	for i := 0; i < lines; i++ {
		switch i % 4 {
		case 0:
			fmt.Fprintf(&b, "w%d  v\n", i)
		case 1:
			fmt.Fprintf(&b, "'s%d' 12\r\n", i)
		case 2:
			fmt.Fprintf(&b, "-- c%d\n", i)
		default:
			fmt.Fprintf(&b, "\"q%d\",x\n", i)
		}
	}
	b.WriteString("last_one")
	fs, _, _ := c05evalOne(c05Case{Bytes: []byte(b.String())})
	for i := range fs {
		fs[i].Case = c05Case{Long: lines}
		fs[i].Witness = fmt.Sprintf("a generated text of %d lines (%d bytes)", lines, b.Len())
		if len(fs[i].Detail) > 300 {
			fs[i].Detail = fs[i].Detail[:300]
		}
	}
	return fs
}

type c05tok struct {
	tok           influxql.Token
	pos           influxql.Pos
	lit           string
	before, after int
}

// c05scan scans the whole text following the regex decisions; slashPoints = number of '/' decision points met.
func c05scan(text string, m *lexx.Model, decisions []int) (toks []c05tok, slashPoints int, panicked interface{}, stale int) {
	p, _ := try(func() {
		sc := influxql.NewScanner(strings.NewReader(text))
		limit := len(m.Runes) + 2
		for i := 0; i < limit; i++ {
			before := sc.VerifConsumed()
			useRegex := false
			if before < len(m.Runes) && m.Runes[before] == '/' {
				if slashPoints < len(decisions) && decisions[slashPoints] == 1 {
					useRegex = true
				}
				slashPoints++
			}
			var t influxql.Token
			var pos influxql.Pos
			var lit string
			if useRegex {
				t, pos, lit = sc.ScanRegex()
			} else {
				t, pos, lit = sc.Scan()
			}
			toks = append(toks, c05tok{t, pos, lit, before, sc.VerifConsumed()})
			if t == influxql.EOF && sc.VerifConsumed() >= len(m.Runes) {
				break
			}
		}
		_, stale = sc.VerifRuneStats()
	})
	return toks, slashPoints, p, stale
}

func lexTokName(t influxql.Token) string {
	names := map[influxql.Token]string{influxql.ILLEGAL: "ILLEGAL", influxql.EOF: "EOF", influxql.WS: "WS", influxql.COMMENT: "COMMENT", influxql.IDENT: "IDENT",
		influxql.BOUNDPARAM: "BOUNDPARAM", influxql.NUMBER: "NUMBER", influxql.INTEGER: "INTEGER", influxql.DURATIONVAL: "DURATIONVAL", influxql.STRING: "STRING",
		influxql.BADSTRING: "BADSTRING", influxql.BADESCAPE: "BADESCAPE", influxql.REGEX: "REGEX", influxql.BADREGEX: "BADREGEX"}
	if n, ok := names[t]; ok {
		return n
	}
	s := t.String()
	if s == "" {
		return fmt.Sprintf("tok%d", int(t))
	}
	return s
}

// c05checkToks checks a token sequence with measured extents against the text: the tokens tile what was consumed,
// each token is the runes it consumed, and its position is that of its first rune. It returns the end of the last
// token checked.
func c05checkToks(toks []c05tok, m *lexx.Model, rep func(sig, detail string)) int {
	total := len(m.Runes)
	next := 0
	for i, t := range toks {
		name := lexTokName(t.tok)
		if t.before != next {
			rep("tiling:gap-or-overlap:"+name, fmt.Sprintf("token %d (%s) starts at rune %d, the previous one ended at %d", i, name, t.before, next))
			break
		}
		if t.after < t.before {
			rep("tiling:negative-extent:"+name, fmt.Sprintf("token %d (%s) has extent [%d,%d)", i, name, t.before, t.after))
			break
		}
		next = t.after
		if t.before > total || t.after > total {
			// more runes delivered than the text has: they come from somewhere else (another scanner's buffer)
			rep("token-beyond-the-end-of-the-text:"+name, fmt.Sprintf("token %d (%s %q) has extent [%d,%d) in a text of %d runes", i, name, t.lit, t.before, t.after, total))
			break
		}
		if t.tok == influxql.EOF {
			if t.before != total {
				cause := "other"
				if t.before < total && m.Runes[t.before] == 0 {
					cause = "NUL-character"
				}
				rep("eof-before-end:"+cause, fmt.Sprintf("EOF reported at rune %d of %d", t.before, total))
				if cause == "other" {
					break
				}
				continue
			}
		} else if t.after == t.before {
			rep("no-progress:"+name, fmt.Sprintf("token %d (%s) consumed nothing at rune %d", i, name, t.before))
			break
		}
		// the runes a token consumed are the token: nothing more (a neighbour eaten), nothing less
		if d := c05content(t, m); d != "" {
			rep("content:"+name, fmt.Sprintf("token %d (%s %q) consumed %q: %s", i, name, t.lit, string(m.Runes[t.before:minInt(t.after, total)]), d))
		}
		// position = position of the token's first character
		want := m.At[t.before]
		if t.pos.Line != want.Line || t.pos.Char != want.Char {
			// classify the displacement by what the reported position points at
			disp := "elsewhere"
			q := -1
			for o := t.before; o < t.after && o < total; o++ {
				if m.Runes[o] == '\'' || m.Runes[o] == '"' {
					q = o
					break
				}
			}
			at := func(o int) bool {
				return o >= 0 && o <= total && m.At[o].Line == t.pos.Line && m.At[o].Char == t.pos.Char
			}
			switch {
			case t.tok == influxql.BADESCAPE && (at(t.after-1) || (t.after == total && (at(total) || (t.pos.Line == m.At[total].Line && t.pos.Char == m.At[total].Char+1)))):
				// (when the backslash is the last character the "escaped character" is the end-of-input sentinel)
				disp = "at-the-escaped-character"
			case (t.tok == influxql.STRING || t.tok == influxql.BADSTRING || t.tok == influxql.IDENT) && q > 0 && at(q-1):
				disp = "rune-before-the-opening-quote"
			case (t.tok == influxql.REGEX || t.tok == influxql.BADREGEX) && at(t.before-1):
				disp = "rune-before-the-opening-slash"
			case t.tok == influxql.EOF && t.pos.Line == want.Line && t.pos.Char == want.Char+1:
				disp = "one-column-past-the-end"
			default:
				for d := -3; d <= 3; d++ {
					if d != 0 && at(t.before+d) {
						disp = fmt.Sprintf("%+d-runes", d)
						break
					}
				}
			}
			rep("position:"+name+":"+disp, fmt.Sprintf("token %d (%s %q) starts at rune %d = line %d char %d, reported line %d char %d", i, name, t.lit, t.before, want.Line, want.Char, t.pos.Line, t.pos.Char))
		}
	}
	return next
}

func c05evalOne(c c05Case) (fs []ev.Finding, slashPoints int, ntoks int) {
	text := string(c.Bytes)
	m := lexx.NewModel(text)
	wit := fmt.Sprintf("%q regex-decisions=%v", text, c.Regex)
	rank := len(text)*10 + len(c.Regex)
	toks, sp, p, stale := c05scan(text, m, c.Regex)
	rep := func(sig, detail string) {
		// The reader uses U+0000 as its end-of-input marker: from a NUL character on, EOF is reported early and
		// positions stop advancing. Everything observed at or after the first NUL is that one defect.
		fs = append(fs, ev.Finding{Sig: sig, Witness: wit, Detail: detail, Case: c, Rank: rank})
	}
	if p != nil {
		rep("panic:Scan", fmt.Sprint(p))
		return fs, sp, len(toks)
	}
	if stale > 0 {
		rep("rune-ring-overrun", fmt.Sprintf("%d reads of an overwritten or unfilled pushback slot", stale))
	}
	total := len(m.Runes)
	last := toks[len(toks)-1]
	if !(last.tok == influxql.EOF && last.after >= total) {
		rep("no-eof-within-len+1-tokens", fmt.Sprintf("%d tokens scanned without reaching EOF at the end", len(toks)))
		return fs, sp, len(toks)
	}
	next := c05checkToks(toks, m, rep)
	if next != total && len(fs) == 0 {
		rep("tiling:incomplete", fmt.Sprintf("tokens cover %d of %d runes", next, total))
	}
	if len(fs) == 0 && len(c.Regex) == 0 && len(text) <= 12 {
		if d := c05afterEOF(text); d != "" {
			rep("scanner-not-independent-after-EOF", d)
		}
	}
	return fs, sp, len(toks)
}

// c05afterEOF: the end of input is final and scanners do not share anything. The text is scanned to its EOF, a second
// scanner over another text is created and started, the first is asked again (EOF every time), and the second must
// still deliver exactly its own tokens. Several rounds, because a recycled buffer is not handed out every time.
func c05afterEOF(text string) string {
	const other = "xyz 12"
	for round := 0; round < 6; round++ {
		s1 := influxql.NewScanner(strings.NewReader(text))
		for i := 0; i <= len(text)+1; i++ {
			if tok, _, _ := s1.Scan(); tok == influxql.EOF {
				break
			}
		}
		s2 := influxql.NewScanner(strings.NewReader(other))
		t0, p0, l0 := s2.Scan()
		for i := 0; i < 3; i++ {
			if tok, _, lit := s1.Scan(); tok != influxql.EOF {
				return fmt.Sprintf("after its EOF, and after another scanner over %q was started, the scanner over %q returned %v %q", other, text, tok, lit)
			}
		}
		t1, _, _ := s2.Scan()
		t2, p2, l2 := s2.Scan()
		t3, _, _ := s2.Scan()
		if t0 != influxql.IDENT || l0 != "xyz" || p0.Char != 0 || t1 != influxql.WS || t2 != influxql.INTEGER || l2 != "12" || p2.Char != 4 || t3 != influxql.EOF {
			return fmt.Sprintf("a scanner over %q delivered %v %q, %v, %v %q at char %d, %v while an exhausted scanner over %q was asked again", other, t0, l0, t1, t2, l2, p2.Char, t3, text)
		}
	}
	return ""
}

func minInt(a, b int) int {
	if a < b {
		return a
	}
	return b
}

// c05content compares the runes inside a token's extent with what the token says it is, for every token kind whose
// spelling is determined by (token, literal): operators and punctuation, keywords, whitespace, bare identifiers,
// numbers, durations, placeholders and illegal characters. Quoted forms, comments and regexes are skipped (escapes).
func c05content(t c05tok, m *lexx.Model) string {
	if t.after > len(m.Runes) || t.after < t.before {
		return ""
	}
	got := string(m.Runes[t.before:t.after])
	if strings.ContainsAny(got, "'\"\x00") {
		return ""
	}
	switch t.tok {
	case influxql.EOF, influxql.COMMENT, influxql.STRING, influxql.BADSTRING, influxql.BADESCAPE, influxql.REGEX, influxql.BADREGEX:
		return ""
	case influxql.WS, influxql.IDENT, influxql.INTEGER, influxql.DURATIONVAL, influxql.BOUNDPARAM:
		if got != t.lit {
			return fmt.Sprintf("the literal is %q", t.lit)
		}
	case influxql.NUMBER:
		if got != t.lit && got != t.lit+"." {
			return fmt.Sprintf("the literal is %q", t.lit)
		}
	case influxql.ILLEGAL:
		if t.lit != "" && got != t.lit {
			return fmt.Sprintf("the literal is %q", t.lit)
		}
	case influxql.NEQ:
		if got != "!=" && got != "<>" {
			return "not a spelling of !="
		}
	default:
		if sp := t.tok.String(); sp != "" && !strings.EqualFold(got, sp) {
			return fmt.Sprintf("the token's spelling is %q", sp)
		}
	}
	return ""
}

// c05eval explores every combination of regex decisions for a text.
func c05eval(b []byte) (fs []ev.Finding, execs int, ntoks int) {
	var rec func(dec []int)
	rec = func(dec []int) {
		f, sp, nt := c05evalOne(c05Case{Bytes: b, Text: fmt.Sprintf("%q", string(b)), Regex: append([]int{}, dec...)})
		execs++
		ntoks += nt
		fs = append(fs, f...)
		// decision points beyond len(dec) defaulted to 0; branch on the first of them
		if sp > len(dec) && len(dec) < 4 {
			for k := len(dec); k < sp && k < 4; k++ {
				nd := append([]int{}, dec...)
				for len(nd) < k {
					nd = append(nd, 0)
				}
				rec(append(nd, 1))
			}
		}
	}
	rec(nil)
	return
}

// c05errorPos: the position quoted in a parse error is the position the scanner attached to the offending token.
// The token stream is not unique (the parser chooses between Scan and ScanRegex at a '/'), so every stream is
// collected; the error's (Found, Pos) pair must occur in one of them.
func c05errorPos(text string) []ev.Finding {
	var perr *influxql.ParseError
	if p, _ := try(func() {
		_, err := influxql.ParseStatement(text)
		if e, ok := err.(*influxql.ParseError); ok {
			perr = e
		}
	}); p != nil || perr == nil || perr.Found == "" || perr.Message != "" {
		return nil
	}
	m := lexx.NewModel(text)
	found := false
	var candidates []string
	var rec func(dec []int)
	rec = func(dec []int) {
		toks, sp, p, _ := c05scan(text, m, dec)
		if p != nil {
			return
		}
		for _, t := range toks {
			name := t.lit
			if name == "" {
				name = t.tok.String()
			}
			if name == perr.Found {
				candidates = append(candidates, fmt.Sprintf("%d:%d", t.pos.Line, t.pos.Char))
				if t.pos == perr.Pos {
					found = true
				}
			}
		}
		if sp > len(dec) && len(dec) < 4 {
			for k := len(dec); k < sp && k < 4; k++ {
				nd := append([]int{}, dec...)
				for len(nd) < k {
					nd = append(nd, 0)
				}
				rec(append(nd, 1))
			}
		}
	}
	rec(nil)
	if !found && len(candidates) > 0 {
		end := m.At[len(m.Runes)]
		if perr.Found == "EOF" && perr.Pos.Line == end.Line && perr.Pos.Char == end.Char+1 {
			// the end-of-input sentinel had been read once more by the parser's own rune look-ahead: the known EOF defect
			return []ev.Finding{{Sig: "position:EOF:one-column-past-the-end", Witness: fmt.Sprintf("%q", text),
				Detail: fmt.Sprintf("parse error reports EOF at line %d char %d, the text ends at line %d char %d", perr.Pos.Line, perr.Pos.Char, end.Line, end.Char),
				Case:   c05Case{Bytes: []byte(text), Text: "parse-error", Regex: []int{-1}}, Rank: len(text) + 1000}}
		}
		return []ev.Finding{{Sig: "parse-error-position-is-not-the-token-position", Witness: fmt.Sprintf("%q", text),
			Detail: fmt.Sprintf("ParseStatement reports found %q at line %d char %d (zero based), the scanner puts tokens spelled like that at %v", perr.Found, perr.Pos.Line, perr.Pos.Char, candidates),
			Case:   c05Case{Bytes: []byte(text), Text: "parse-error", Regex: []int{-1}}, Rank: len(text)}}
	}
	return nil
}

// c05contexts are statement beginnings that leave the parser at a place where it looks at the text itself (the
// rune look-ahead for regexes and comments, dotted names, casts) or at a plain token boundary; the tail that follows
// is read by the parser, not by a bare scanner.
var c05contexts = []string{
	"SELECT a FROM ", "SELECT ", "SELECT a FROM m GROUP BY ", "SELECT f(", "SELECT f(a, ", "SELECT a FROM m WHERE a =~ ", "SELECT a FROM m WHERE a !~ ",
	"SELECT a FROM m WHERE a = ", "SHOW TAG VALUES WITH KEY =~ ", "SHOW MEASUREMENTS WITH MEASUREMENT =~ ", "SELECT a FROM db.rp.", "SELECT a::",
	"DROP SERIES FROM ", "SELECT a FROM m WHERE time > now() - ", "SELECT a FROM m,", "SELECT a AS b ", "SELECT a FROM m WHERE a =~\n", "",
}

// c05parserLevel: the same three clauses for the tokens the Parser obtains, rune look-ahead included. The hook logs
// every freshly scanned token with the runes consumed before and after it.
func c05parserLevel(text string) []ev.Finding {
	m := lexx.NewModel(text)
	var log []influxql.VerifToken
	var stats influxql.VerifStats
	if p, _ := try(func() {
		ps := influxql.NewParser(strings.NewReader(text))
		ps.VerifLogTokens()
		ps.VerifSetBudget(40 * (len(m.Runes) + 8))
		defer func() { log, stats = ps.VerifTokens(), ps.VerifStats() }()
		_, _ = ps.ParseQuery()
	}); p != nil {
		if _, ok := p.(influxql.VerifBudgetExceeded); !ok {
			return nil // panics of the parser are C04's
		}
	}
	var fs []ev.Finding
	cs := c05Case{Bytes: []byte(text), Text: "parser-level", Regex: []int{-2}}
	wit := fmt.Sprintf("%q (through the parser)", text)
	rep := func(sig, detail string) {
		fs = append(fs, ev.Finding{Sig: sig, Witness: wit, Detail: detail, Case: cs, Rank: len(text)})
	}
	toks := make([]c05tok, len(log))
	for i, t := range log {
		toks[i] = c05tok{t.Tok, t.Pos, t.Lit, t.Before, t.After}
	}
	if stats.RuneStale > 0 {
		rep("rune-ring-overrun", fmt.Sprintf("%d reads of an overwritten or unfilled pushback slot", stats.RuneStale))
	}
	c05checkToks(toks, m, rep)
	return fs
}

// c05errorPosLog: the position quoted in a parse error is the position of the token it names. The tokens are the
// ones the parser itself obtained (hook log), so the comparison is between the error and the scanner's own report
// for that token: the recorded position defects of the scanner cancel out, a parser that quotes another token's
// position does not.
func c05errorPosLog(text string) []ev.Finding {
	var log []influxql.VerifToken
	var err error
	if p, _ := try(func() {
		ps := influxql.NewParser(strings.NewReader(text))
		ps.VerifLogTokens()
		ps.VerifSetBudget(40 * (len(text) + 8))
		defer func() { log = ps.VerifTokens() }()
		_, err = ps.ParseQuery()
	}); p != nil {
		return nil
	}
	perr, ok := err.(*influxql.ParseError)
	if !ok {
		return nil
	}
	// the line and column quoted are the error's position, one based, every time the message is produced, and
	// producing the message does not move the position
	{
		before := perr.Pos
		m1 := perr.Error()
		m2 := perr.Error()
		want := fmt.Sprintf("at line %d, char %d", before.Line+1, before.Char+1)
		switch {
		case m1 != m2 || perr.Pos != before:
			return []ev.Finding{{Sig: "parse-error-changes-when-read", Witness: fmt.Sprintf("%q", text),
				Detail: fmt.Sprintf("Error() = %q, then %q; Pos was %d:%d and is %d:%d afterwards", m1, m2, before.Line, before.Char, perr.Pos.Line, perr.Pos.Char),
				Case:   c05Case{Bytes: []byte(text), Text: "parse-error-log", Regex: []int{-3}}, Rank: len(text)}}
		case !strings.HasSuffix(m1, want):
			return []ev.Finding{{Sig: "parse-error-message-quotes-another-position", Witness: fmt.Sprintf("%q", text),
				Detail: fmt.Sprintf("Error() = %q but Pos is %d:%d (zero based), i.e. %q", m1, before.Line, before.Char, want),
				Case:   c05Case{Bytes: []byte(text), Text: "parse-error-log", Regex: []int{-3}}, Rank: len(text)}}
		}
	}
	if perr.Found == "" || perr.Message != "" {
		return nil
	}
	var candidates []string
	for _, t := range log {
		name := t.Lit
		if name == "" {
			name = t.Tok.String()
		}
		if name == perr.Found {
			if t.Pos == perr.Pos {
				return nil
			}
			candidates = append(candidates, fmt.Sprintf("%d:%d", t.Pos.Line, t.Pos.Char))
		}
	}
	if len(candidates) == 0 {
		return nil
	}
	return []ev.Finding{{Sig: "parse-error-position-is-not-the-token-position", Witness: fmt.Sprintf("%q", text),
		Detail: fmt.Sprintf("the error names %q at line %d char %d (zero based); the parser obtained tokens spelled like that at %v only", perr.Found, perr.Pos.Line, perr.Pos.Char, candidates),
		Case:   c05Case{Bytes: []byte(text), Text: "parse-error-log", Regex: []int{-3}}, Rank: len(text)}}
}

// c05editAlpha: what is put in place of, or in front of, a token to provoke a parse error at every position.
var c05editAlpha = []string{"a", "SELECT", "(", ")", ",", "'s'", "1", "=", "\n"}

// c05editBody: every statement of the grammar model within one deviation x every token position x {delete,
// replace, insert}: the parse error, if any, must quote its token's position; the tokens must tile.
func c05editBody(c *xplore.Ctx) (text string, form string, fs []ev.Finding, skipped bool) {
	g := gram.New(c)
	g.NoValueAlts = true
	spec := gram.Statement(g)
	if g.InvalidWhy != "" {
		return "", spec.Form, nil, true
	}
	ps := gram.RenderPieces(nil, spec.Toks)
	pos := c.Free(len(ps) + 1)
	kind := c.Free(3) // 0 delete, 1 replace, 2 insert before
	if (kind != 2 && pos == len(ps)) || (kind == 0 && len(ps) == 0) {
		return "", spec.Form, nil, true
	}
	sub := ""
	if kind != 0 {
		sub = c05editAlpha[c.Free(len(c05editAlpha))]
	}
	var b strings.Builder
	for i, p := range ps {
		if i == pos {
			switch kind {
			case 0:
				continue
			case 1:
				b.WriteString(p.Gap + sub)
				continue
			case 2:
				b.WriteString(p.Gap + sub + " " + p.Text)
				continue
			}
		}
		b.WriteString(p.Gap + p.Text)
	}
	if kind == 2 && pos == len(ps) {
		b.WriteString(" " + sub)
	}
	text = b.String()
	fs = append(fs, c05errorPosLog(text)...)
	fs = append(fs, c05parserLevel(text)...)
	return text, spec.Form, fs, false
}

func init() {
	register(&Check{ID: "C05", Run: c05run, Replay: func(raw json.RawMessage) []ev.Finding {
		var c c05Case
		if json.Unmarshal(raw, &c) != nil {
			return nil
		}
		if c.Long > 0 {
			return c05long(c.Long)
		}
		if c.Text == "parse-error" {
			return c05errorPos(string(c.Bytes))
		}
		if c.Text == "parser-level" {
			return c05parserLevel(string(c.Bytes))
		}
		if c.Text == "parse-error-log" {
			return c05errorPosLog(string(c.Bytes))
		}
		f, _, _ := c05evalOne(c)
		return f
	}})
}

func c05run(r *ev.Run) {
	th := thorough(r)
	alpha, k := lexx.Core, 3
	if th {
		alpha, k = lexx.Sigma, 3
	}
	n := len(alpha)
	run := func(text string) {
		fs, execs, nt := c05eval([]byte(text))
		cnt := r.Eval()
		r.Trans(int64(nt))
		r.Add("scan_executions", 0)
		_ = execs
		r.State(astx.HashString(text), len(text) > 0)
		r.Sample(cnt, func() interface{} { return fmt.Sprintf("%q", text) })
		for _, f := range fs {
			r.Report(f)
		}
		for _, f := range c05errorPos(text) {
			r.Report(f)
		}
	}
	for _, lines := range []int{1000, 150000, 400000} {
		r.Eval()
		r.State(astx.HashString(fmt.Sprint("LONG|", lines)), true)
		for _, f := range c05long(lines) {
			r.Report(f)
		}
	}
	total := lexx.Count(n, k)
	parallelFor(total, func(idx int) {
		v := lexx.Decode(idx, n)
		var b strings.Builder
		for _, i := range v {
			b.WriteString(alpha[i])
		}
		run(b.String())
		// joined by separators (pairs and triples only, so that positions cross line breaks and multi-byte runes)
		if len(v) >= 2 {
			for _, sep := range lexx.Separators {
				var parts []string
				for _, i := range v {
					parts = append(parts, alpha[i])
				}
				run(strings.Join(parts, sep))
			}
		}
	})
	// through the parser: every context x every tail of <=2 spellings (raw and joined by each separator)
	var ptexts int64
	runP := func(text string) {
		cnt := r.Eval()
		atomic.AddInt64(&ptexts, 1)
		r.State(astx.HashString("P|"+text), true)
		r.Sample(cnt, func() interface{} { return fmt.Sprintf("parser-level %q", text) })
		for _, f := range c05parserLevel(text) {
			r.Report(f)
		}
	}
	pa := lexx.Core
	if th {
		pa = lexx.Sigma
	}
	parallelFor(len(pa), func(i int) {
		for _, cx := range c05contexts {
			runP(cx + pa[i])
			for j := range pa {
				runP(cx + pa[i] + pa[j])
				for _, sep := range lexx.Separators {
					runP(cx + pa[i] + sep + pa[j])
				}
			}
		}
	})
	// parse errors at every token position of every statement form
	eb := 1
	if th {
		eb = 2
	}
	runGrammar(r, []boundSet{{fmt.Sprintf("token edits for error positions: struct<=%d x every position x {delete, replace, insert} x %d substitutes", eb, len(c05editAlpha)), []int{eb, 0, 0}}}, c05editBody)
	r.Set("parser_level_texts", atomic.LoadInt64(&ptexts))
	r.Set("parser_contexts", len(c05contexts))
	if th {
		// length 4 over the core alphabet
		nc := len(lexx.Core)
		parallelFor(nc*nc*nc*nc, func(idx int) {
			x := idx
			var b strings.Builder
			for i := 0; i < 4; i++ {
				b.WriteString(lexx.Core[x%nc])
				x /= nc
			}
			run(b.String())
		})
	}
	r.Set("alphabet", n)
	r.Set("max_sequence_length", k)
	r.Set("separators", len(lexx.Separators))
	r.Rule = fmt.Sprintf("every concatenation of <=%d spellings from a %d-spelling alphabet (raw, so neighbours fuse; pairs and triples also joined by each of %d separators incl. CR, CRLF, a multi-byte rune and a multi-line comment); wherever the next rune is '/' both Scan and ScanRegex are explored. Token extents come from the hook's count of runes consumed net of pushback, positions from an independent folding/position model. state = distinct text; non-trivial = non-empty text. The same three clauses (tiling, content, position) are checked for the tokens the Parser obtains (hook: log of freshly scanned tokens with their extents) on every parser context x every tail of <=2 spellings, raw and joined by each separator", k, n, len(lexx.Separators))
	r.Assumptions = []string{"extents are measured by the verif hook (runes fetched minus real runes pushed back), not by the positions under test"}
}
