package checks

import (
	"encoding/json"
	"fmt"
	"sort"
	"strings"
	"sync"
	"sync/atomic"

	"github.com/influxdata/influxql"

	"verif/harness/astx"
	"verif/harness/ev"
	"verif/harness/gram"
	"verif/harness/xplore"
)

// C15 — passwords never appear in printed statements or sanitized query text.

var c15pwAlpha = []string{"z", "q", " ", "'", `"`, `\`, "=", ";", "\t", "\n"}
var c15users = []string{"u0", "my user", "a=b", "with password", "select", `x"y`, "for", "é", `RAW:abc"def"`, `RAW:for"='s'"`, "\u212a\u212a\u212a", "\u0130\u023a\u1e9e", "bishop", "pip", "P"}
var c15must = []string{" ", "  ", "\t", "\n", "\r\n", " /*c*/ ", " --c\n", "/**/", " /*/ c */ ", "/* 'q' \"z\" */", "/*/", " /****/ ", "\f", "\u00a0", "\v", " -- c\r"}
var c15may = []string{" ", "", "  ", "\n", " /*c*/ ", "--c\n", "/*/ c */", " /* ' */ ", "/*/", "\f", "\u00a0", " /* c ***/ "}

type c15tok struct {
	text string
	kw   bool
	may  bool // the gap BEFORE this token may be empty
	isPw bool
	feat string
}

func kwCase(c *xplore.Ctx, s string) (string, string) {
	switch c.ChooseC(gram.CSpell, 3) {
	case 1:
		return strings.ToLower(s), "lower-case"
	case 2:
		b := []byte(strings.ToLower(s))
		for i := 1; i < len(b); i += 2 {
			b[i] = b[i] - 'a' + 'A'
		}
		return string(b), "mixed-case"
	}
	return s, ""
}

type c15stmt struct {
	text  string
	spans [][2]int // byte spans of password literals within text
	pws   []string
	feats []string
}

// c15one renders one password statement through the choices.
func c15one(c *xplore.Ctx, pw string, kindFree bool) c15stmt {
	var toks []c15tok
	kw := func(words ...string) {
		for _, w := range words {
			toks = append(toks, c15tok{text: w, kw: true})
		}
	}
	user := c15users[c.ChooseC(gram.CValue, len(c15users))]
	utext := user
	if strings.HasPrefix(user, "RAW:") {
		utext = user[4:] // a bare part fused with a quoted part: the scanner reads it as one identifier
	} else if !gram.BareLegal(user) {
		utext = gram.QuoteIdentSpec(user)
	}
	var out c15stmt
	if user != "u0" {
		out.feats = append(out.feats, "user="+user)
	}
	kind := 0
	if kindFree {
		kind = c.Free(2)
	}
	if kind == 0 {
		kw("CREATE", "USER")
		toks = append(toks, c15tok{text: utext})
		kw("WITH", "PASSWORD")
		toks = append(toks, c15tok{text: gram.QuoteStringSpec(pw), isPw: true, may: true})
		if c.Choose(2) == 1 {
			kw("WITH", "ALL", "PRIVILEGES")
			toks[len(toks)-3].may = true
			out.feats = append(out.feats, "admin")
		}
	} else {
		kw("SET", "PASSWORD", "FOR")
		toks = append(toks, c15tok{text: utext, may: strings.HasPrefix(utext, `"`)})
		toks = append(toks, c15tok{text: "=", may: true})
		toks = append(toks, c15tok{text: gram.QuoteStringSpec(pw), isPw: true, may: true})
	}
	var b strings.Builder
	for i, t := range toks {
		if i > 0 {
			var gap string
			if t.may {
				k := c.ChooseC(gram.CSpell, len(c15may))
				gap = c15may[k]
				if k > 0 {
					out.feats = append(out.feats, fmt.Sprintf("gap-before-%s=%q", tokName(t), gap))
				}
			} else {
				k := c.ChooseC(gram.CSpell, len(c15must))
				gap = c15must[k]
				if k > 0 {
					out.feats = append(out.feats, fmt.Sprintf("gap-before-%s=%q", tokName(t), gap))
				}
			}
			b.WriteString(gap)
		}
		text := t.text
		if t.kw {
			var f string
			text, f = kwCase(c, t.text)
			if f != "" {
				out.feats = append(out.feats, f)
			}
		}
		if t.isPw {
			out.spans = append(out.spans, [2]int{b.Len(), b.Len() + len(text)})
			out.pws = append(out.pws, pw)
		}
		b.WriteString(text)
	}
	out.text = b.String()
	return out
}

func tokName(t c15tok) string {
	if t.isPw {
		return "literal"
	}
	if t.kw {
		return t.text
	}
	if t.text == "=" {
		return "="
	}
	return "user"
}

type c15case struct {
	text  string
	spans [][2]int
	pws   []string
	feats []string
}

func c15build(c *xplore.Ctx, pws []string) c15case {
	pw := pws[c.Free(len(pws))]
	s := c15one(c, pw, true)
	out := c15case{text: s.text, spans: s.spans, pws: s.pws, feats: s.feats}
	shift := func(n int) {
		for i := range out.spans {
			out.spans[i][0] += n
			out.spans[i][1] += n
		}
	}
	switch k := c.Choose(7 + len(c15before)); {
	case k >= 7:
		// after a statement whose own text contains quotes, slashes or the words of the clause in places where
		// they mean something else (regex literals, divisions, casts, strings, comments)
		pre := c15before[k-7] + "; "
		out.text = pre + out.text
		shift(len(pre))
		out.feats = append(out.feats, "after-statement-with-regex-or-division")
		return out
	case k == 1:
		pre := "SELECT a FROM m; "
		out.text = pre + out.text
		shift(len(pre))
		out.feats = append(out.feats, "after-another-statement")
	case k == 2:
		out.text += "; SELECT a FROM m"
		out.feats = append(out.feats, "before-another-statement")
	case k == 3:
		out.text += ";SELECT a FROM m"
		out.feats = append(out.feats, "before-another-statement-no-space")
	case k == 4 || k == 5:
		sep := "; "
		if c.TotalCost() >= 0 && len(out.feats) >= 0 {
		}
		if out.feats = append(out.feats, "two-password-statements"); true {
		}
		second := c15one(c, "zqz", true)
		if strings.HasSuffix(out.feats[len(out.feats)-1], "two-password-statements") && c.Vector()[len(c.Vector())-1] >= 0 {
		}
		base := len(out.text) + len(sep)
		out.text += sep + second.text
		for _, sp := range second.spans {
			out.spans = append(out.spans, [2]int{sp[0] + base, sp[1] + base})
		}
		out.pws = append(out.pws, second.pws...)
	case k == 6:
		out.text += ";SET PASSWORD FOR u2 = 'zqq'"
		i := strings.LastIndex(out.text, "'zqq'")
		out.spans = append(out.spans, [2]int{i, i + 5})
		out.pws = append(out.pws, "zqq")
		out.feats = append(out.feats, "followed-by-set-password-no-space")
	}
	// what follows the last statement up to the end of the text: nothing, or a comment that the end of the text
	// closes (no line break behind it), an unterminated block comment, separators
	if k := c.Choose(1 + len(c15tails)); k > 0 {
		out.text += c15tails[k-1]
		out.feats = append(out.feats, "tail="+c15tails[k-1])
	}
	return out
}

var c15tails = []string{" -- c", " --", "; -- c", ";--c", " /* c */", " /* c", "\n", ";", " ;; ", "\n-- c\r"}

// c15marker is whatever Sanitize puts in place of a password literal. The property does not fix its spelling, only
// that nothing else changes and that no fragment of the password remains; it is read off the simplest statement.
var c15markerOnce sync.Once
var c15markerText = "[REDACTED]"

func c15marker() string {
	c15markerOnce.Do(func() {
		const pre = "CREATE USER u0 WITH PASSWORD "
		func() {
			defer func() { recover() }()
			got := influxql.Sanitize(pre + "'zq'")
			if strings.HasPrefix(got, pre) && !strings.ContainsAny(got[len(pre):], "zq'") {
				c15markerText = got[len(pre):]
			}
		}()
	})
	return c15markerText
}

// c15before: statements that may precede a password statement in the same text.
var c15before = []string{
	`SELECT * FROM /a"b/`, `SELECT a FROM m WHERE h =~ /it's/ AND b = 'x'`, `SELECT a / b, x::field / 2, (a) / 2, true / 2 FROM m WHERE c = '/' AND d = "/"`,
	`SELECT a FROM m WHERE h !~ /a\/'b/`, `SELECT /x"/, mean(/y'/) FROM db.rp./'/ GROUP BY /"/`, `SHOW TAG VALUES WITH KEY =~ /'/`,
	`SELECT a FROM m WHERE s = 'with password \'' AND "set password for" = 1 -- '` + "\n",
	`SELECT x::field / 2 FROM m WHERE s = 'a/b'`, `SELECT *::tag / 2, y::float / 3 FROM m WHERE s = '/'`,
	`SELECT * / 2 FROM m WHERE x = 'a/b'`, `SELECT mean(*) / 3 FROM m WHERE x = '/'`, `SELECT * FROM m WHERE x =~ /\\/'/`,
	// letters whose lower-case form has another length in UTF-8 (offsets computed on a folded copy go wrong)
	"SELECT a FROM m WHERE s = '\u212a\u212a\u212a\u212a' /* \u0130\u0130\u023a\u023e */",
}

func c15expected(cs c15case) string {
	var b strings.Builder
	last := 0
	for _, sp := range cs.spans {
		b.WriteString(cs.text[last:sp[0]])
		b.WriteString(c15marker())
		last = sp[1]
	}
	b.WriteString(cs.text[last:])
	return b.String()
}

func c15check(cs c15case, vec []int, rank int) (fs []ev.Finding, accepted bool) {
	q, err := influxql.ParseQuery(cs.text)
	if err != nil {
		return nil, false
	}
	vc := vecCase{Vector: vec}
	// The generator's reading of its own text must be the parser's: the same password statements with the same
	// passwords, in order. A filler such as `/*/` is a comment opener; alone it makes the text invalid, but when a
	// later filler closes it, everything in between is comment and the text is a different, valid statement whose
	// literal spans the generator does not know. Such texts are not cases.
	var parsedPws []string
	for _, st := range q.Statements {
		switch s := st.(type) {
		case *influxql.CreateUserStatement:
			parsedPws = append(parsedPws, s.Password)
		case *influxql.SetPasswordUserStatement:
			parsedPws = append(parsedPws, s.Password)
		}
	}
	if strings.Join(parsedPws, "\x00") != strings.Join(cs.pws, "\x00") {
		return nil, false
	}
	// String() of every password statement
	for _, st := range q.Statements {
		var pw string
		switch s := st.(type) {
		case *influxql.CreateUserStatement:
			pw = s.Password
		case *influxql.SetPasswordUserStatement:
			pw = s.Password
		default:
			continue
		}
		printed := st.String()
		leaked := false
		for _, m := range []string{"z", "q"} {
			if strings.Contains(pw, m) && strings.Contains(printed, m) {
				leaked = true
			}
		}
		if leaked {
			fs = append(fs, ev.Finding{Sig: "string-leaks-password:" + fmt.Sprintf("%T", st), Witness: cs.text, Detail: "String() = " + printed, Case: vc, Rank: rank})
		}
	}
	var got string
	if p, st := try(func() { got = influxql.Sanitize(cs.text) }); p != nil {
		return append(fs, ev.Finding{Sig: "panic:Sanitize", Witness: cs.text, Detail: fmt.Sprint(p) + st, Case: vc, Rank: rank}), true
	}
	want := c15expected(cs)
	if got != want {
		feats := append([]string{}, cs.feats...)
		for _, pw := range cs.pws[:1] {
			for _, ch := range []struct{ c, n string }{{" ", "space"}, {`"`, "dquote"}, {"'", "squote"}, {`\`, "backslash"}, {"=", "equals"}, {";", "semicolon"}, {"\t", "tab"}, {"\n", "newline"}} {
				if strings.Contains(pw, ch.c) {
					feats = append(feats, "pw-has-"+ch.n)
				}
			}
			if pw == "" {
				feats = append(feats, "pw-empty")
			}
		}
		sort.Strings(feats)
		damage := "wrong-span"
		leak := false
		for _, m := range []string{"z", "q"} {
			if strings.Contains(got, m) {
				leak = true
			}
		}
		for i, sp := range cs.spans {
			if strings.Contains(got, cs.text[sp[0]:sp[1]]) && cs.pws[i] != "" {
				damage = "not-redacted"
			}
		}
		if leak && damage != "not-redacted" {
			damage = "fragment-leaked"
		}
		fs = append(fs, ev.Finding{Sig: "sanitize:" + damage + ":" + ev.SigSafe(strings.Join(feats, "+")), Witness: cs.text,
			Detail: fmt.Sprintf("Sanitize = %q, want %q", got, want), Case: vc, Rank: rank})
	}
	return fs, true
}

func c15pwList(maxLen int) []string {
	out := []string{""}
	prev := []string{""}
	for l := 1; l <= maxLen; l++ {
		var cur []string
		for _, p := range prev {
			for _, a := range c15pwAlpha {
				cur = append(cur, p+a)
			}
		}
		out = append(out, cur...)
		prev = cur
	}
	return out
}

var c15unchanged = []string{
	"SELECT a FROM m WHERE k = 'with password foo'", "SELECT a FROM m WHERE k = 'set password for u = x'", "SELECT \"with password x\" FROM m",
	"SELECT a FROM m -- with password 'zq'", "SHOW USERS", "DROP USER password", "SELECT password FROM m WHERE \"with\" = 'x'", "SELECT a FROM \"password for\" WHERE b = 'c'",
	"GRANT ALL ON \"password\" TO \"with\"", "SELECT a FROM m WHERE pw = 'password for x = y'",
}

// ---- spellings the parser rejects today -------------------------------------------------------
//
// Sanitize keeps its own idea of where a password literal ends. If the scanner or the parser come to accept another
// spelling of the clause (a doubled quote as an escape, a single-quoted user name, ...), Sanitize must follow. The
// texts below are rejected by the parser as it is, so they count for nothing on this tree; whenever one of them is
// accepted, the password token is located with the real scanner (extents from the hook) and Sanitize must have
// replaced exactly that token.

var c15nmUsers = []string{"u0", `"u 0"`, "'u0'", `"a""b"`, "'a''b'", `u0"x"`, "`u0`", "u0.x", "$u", "u0 u1", "(u0)", "u0,u1", "-u0", "u0::tag", `"u0"'x'`}
var c15nmPws = []string{"'zq'", "'z''q'", `'z'"q"`, `"zq"`, "'zq'q", "'z' 'q'", "'z'/* c */'q'", "zq", "`zq`", "$zq", "'z'.'q'", "'z'+'q'", "('zq')", "'z\\'q'", "'zq", "'z';'q'", "N'zq'", "'z'\n'q'", "'z'--\n'q'", "=='zq'"}

func c15nearMissTexts() []string {
	var out []string
	for _, u := range c15nmUsers {
		for _, p := range c15nmPws {
			out = append(out, "SET PASSWORD FOR "+u+" = "+p, "SET PASSWORD FOR "+u+"="+p, "CREATE USER "+u+" WITH PASSWORD "+p, "CREATE USER "+u+" WITH PASSWORD "+p+" WITH ALL PRIVILEGES",
				"SET PASSWORD FOR "+u+" = "+p+"; SELECT a FROM m")
		}
	}
	return out
}

// c15nearMiss returns findings and whether the parser accepted the text as a password statement.
func c15nearMiss(text string) (fs []ev.Finding, accepted bool) {
	q, err := influxql.ParseQuery(text)
	if err != nil || strings.ContainsAny(text, "\r\x00") {
		return nil, false
	}
	isPw := false
	for _, st := range q.Statements {
		switch s := st.(type) {
		case *influxql.CreateUserStatement, *influxql.SetPasswordUserStatement:
			isPw = true
			if printed := s.String(); strings.ContainsAny(printed, "zq") {
				fs = append(fs, ev.Finding{Sig: "string-leaks-password:" + fmt.Sprintf("%T", st), Witness: text, Detail: "String() = " + printed, Case: map[string]string{"near_miss": text}, Rank: len(text)})
			}
		}
	}
	if !isPw {
		return nil, false
	}
	// locate the password tokens with the scanner under test
	type tk struct {
		tok           influxql.Token
		lit           string
		before, after int
	}
	var toks []tk
	sc := influxql.NewScanner(strings.NewReader(text))
	for i := 0; i < len(text)+2; i++ {
		b := sc.VerifConsumed()
		t, _, lit := sc.Scan()
		toks = append(toks, tk{t, lit, b, sc.VerifConsumed()})
		if t == influxql.EOF {
			break
		}
	}
	var off []int // byte offset of every rune
	for i := range text {
		off = append(off, i)
	}
	off = append(off, len(text))
	var spans [][2]int
	state := 0 // 1: after PASSWORD in CREATE USER (literal follows); 2: after PASSWORD FOR (literal follows the '=')
	for i, t := range toks {
		switch {
		case t.tok == influxql.WS || t.tok == influxql.COMMENT:
		case t.tok == influxql.PASSWORD:
			state = 1
			for j := i + 1; j < len(toks); j++ {
				if toks[j].tok == influxql.WS || toks[j].tok == influxql.COMMENT {
					continue
				}
				if toks[j].tok == influxql.FOR {
					state = 2
				}
				break
			}
		case t.tok == influxql.SEMICOLON:
			state = 0
		case state == 1 && t.tok != influxql.PASSWORD:
			spans = append(spans, [2]int{off[t.before], off[t.after]})
			state = 0
		case state == 2 && t.tok == influxql.EQ:
			state = 1
		}
	}
	var b strings.Builder
	last := 0
	for _, sp := range spans {
		b.WriteString(text[last:sp[0]])
		b.WriteString(c15marker())
		last = sp[1]
	}
	b.WriteString(text[last:])
	want := b.String()
	var got string
	if p, st := try(func() { got = influxql.Sanitize(text) }); p != nil {
		return append(fs, ev.Finding{Sig: "panic:Sanitize", Witness: text, Detail: fmt.Sprint(p) + st, Case: map[string]string{"near_miss": text}, Rank: len(text)}), true
	}
	if got != want {
		sig := "sanitize:newly-accepted-spelling-not-redacted"
		if !strings.ContainsAny(got, "zq") {
			sig = "sanitize:newly-accepted-spelling-wrong-span"
		}
		fs = append(fs, ev.Finding{Sig: sig, Witness: text, Detail: fmt.Sprintf("the parser accepts this spelling; the scanner puts the password at bytes %v; Sanitize = %q, want %q", spans, got, want), Case: map[string]string{"near_miss": text}, Rank: len(text)})
	}
	return fs, true
}

func init() {
	register(&Check{ID: "C15", Run: c15run, Replay: func(raw json.RawMessage) []ev.Finding {
		var probe map[string]json.RawMessage
		if json.Unmarshal(raw, &probe) != nil {
			return nil
		}
		if _, ok := probe["near_miss"]; ok {
			var m map[string]string
			json.Unmarshal(raw, &m)
			f, _ := c15nearMiss(m["near_miss"])
			return f
		}
		if _, ok := probe["text"]; ok {
			var m map[string]string
			json.Unmarshal(raw, &m)
			return c15checkUnchanged(m["text"])
		}
		var c struct {
			Vector []int `json:"vector"`
			MaxLen int   `json:"maxlen"`
		}
		json.Unmarshal(raw, &c)
		var out []ev.Finding
		for _, ml := range []int{2, 3} {
			pws := c15pwList(ml)
			func() {
				defer func() { recover() }()
				xplore.Replay(func(x *xplore.Ctx) {
					cs := c15build(x, pws)
					fs, _ := c15check(cs, x.Vector(), 0)
					out = append(out, fs...)
				}, c.Vector)
			}()
			if len(out) > 0 {
				break
			}
		}
		return out
	}})
}

func c15checkUnchanged(t string) []ev.Finding {
	if _, err := influxql.ParseQuery(t); err != nil {
		return nil
	}
	if got := influxql.Sanitize(t); got != t {
		return []ev.Finding{{Sig: "sanitize:alters-text-without-password-clause", Witness: t, Detail: fmt.Sprintf("Sanitize = %q", got), Case: map[string]string{"text": t}, Rank: len(t)}}
	}
	// followed by a password statement in the same text: whatever the statement in front contains (regex literals
	// with quotes, divisions, wildcards, casts, strings with slashes), the literal behind it is redacted and nothing
	// else changes
	for _, tail := range []string{"; SET PASSWORD FOR u0 = 'zq'", ";\nCREATE USER u0 WITH PASSWORD 'z/q' WITH ALL PRIVILEGES", "; SET PASSWORD FOR u0 = 'z/q'", "; CREATE USER u0 WITH PASSWORD 'z/*q'"} {
		full := t + tail
		q, err := influxql.ParseQuery(full)
		if err != nil || len(q.Statements) < 2 {
			continue
		}
		switch q.Statements[len(q.Statements)-1].(type) {
		case *influxql.SetPasswordUserStatement, *influxql.CreateUserStatement:
		default:
			continue // the tail was swallowed by a comment or a literal of the statement in front: not a case
		}
		i := strings.LastIndex(full, "'z")
		j := strings.LastIndex(full, "q'") + 2
		want := full[:i] + c15marker() + full[j:]
		if got := influxql.Sanitize(full); got != want {
			sig := "sanitize:not-redacted-after-another-statement"
			if !strings.ContainsAny(got[len(t):], "zq") {
				sig = "sanitize:other-text-altered-after-another-statement"
			}
			return []ev.Finding{{Sig: sig, Witness: full, Detail: fmt.Sprintf("Sanitize = %q, want %q", got, want), Case: map[string]string{"text": t}, Rank: len(full)}}
		}
	}
	return nil
}

func c15run(r *ev.Run) {
	th := thorough(r)
	maxLen := 2
	bounds := []int{1, 1, 1}
	if th {
		maxLen = 3
		bounds = []int{1, 2, 1}
	}
	var rejected int64
	var mu syncMutex
	type pass struct {
		maxLen int
		bounds []int
	}
	passes := []pass{{maxLen, bounds}}
	if th {
		// passwords <=3 with one spelling deviation, passwords <=2 with two
		passes = []pass{{3, []int{1, 1, 1}}, {2, []int{1, 2, 1}}}
	}
	var pws []string
	for _, ps := range passes {
		pws = c15pwList(ps.maxLen)
		ex := &xplore.Explorer{Bounds: ps.bounds, Workers: r.Workers, Deadline: deadlineFor(r.Tier), Body: func(c *xplore.Ctx) {
			cs := c15build(c, pws)
			fs, ok := c15check(cs, c.Vector(), c.TotalCost()*1000+len(cs.text))
			if !ok {
				mu.Lock()
				rejected++
				mu.Unlock()
				return
			}
			n := r.Eval()
			r.State(astx.HashString(cs.text), true)
			r.Sample(n, func() interface{} { return cs.text })
			for _, f := range fs {
				r.Report(f)
			}
		}}
		ex.Run()
		r.Trans(ex.Transitions)
		if ex.Capped {
			r.Exhaustive = false
		}
	}
	// texts without a password clause come back identical
	texts := append([]string{}, c15unchanged...)
	// a slash after every kind of operand ending (a division, never the start of a regex), glued and spaced, as a field
	// and in a condition: together with the tails of c15checkUnchanged, whose passwords contain slashes
	for _, x := range []string{"1", "1.", "1.5", ".5", "1.0", "1h", "x", "x1", `"q"`, `"q 1."`, "'s'", "'1.'", "(x)", "x::float", "x::integer", "*", "true", "x.y", "x.\"y\"", "f()", "f(1.)", "now()"} {
		for _, sp := range []string{"/", " / ", "/ ", " /"} {
			texts = append(texts, "SELECT "+x+sp+"2 FROM m", "SELECT a FROM m WHERE b = "+x+sp+"2", "SELECT a FROM m WHERE "+x+sp+"2 > 1 AND c =~ /r/")
		}
	}
	ex2 := &xplore.Explorer{Bounds: []int{2, 0, 1}, Workers: r.Workers, Deadline: deadlineFor(r.Tier), Body: func(c *xplore.Ctx) {
		g := gram.New(c)
		spec := gram.Statement(g)
		if g.InvalidWhy != "" || spec.Form == "CREATE USER" || spec.Form == "SET PASSWORD" {
			return
		}
		t := gram.Render(nil, spec.Toks)
		n := r.Eval()
		r.State(astx.HashString("U|"+t), true)
		r.Sample(n, func() interface{} { return t })
		for _, f := range c15checkUnchanged(t) {
			r.Report(f)
		}
	}}
	ex2.Run()
	r.Trans(ex2.Transitions)
	for _, t := range texts {
		r.Eval()
		r.State(astx.HashString("U|"+t), true)
		for _, f := range c15checkUnchanged(t) {
			r.Report(f)
		}
	}
	var nmAccepted int64
	nm := c15nearMissTexts()
	parallelFor(len(nm), func(i int) {
		fs, ok := c15nearMiss(nm[i])
		if !ok {
			return
		}
		atomic.AddInt64(&nmAccepted, 1)
		n := r.Eval()
		r.State(astx.HashString("N|"+nm[i]), true)
		r.Sample(n, func() interface{} { return nm[i] })
		for _, f := range fs {
			r.Report(f)
		}
	})
	r.Set("near_miss_spellings_tried", len(nm))
	r.Set("near_miss_spellings_accepted_by_the_parser", atomic.LoadInt64(&nmAccepted))
	r.Set("passwords", len(pws))
	r.Set("password_alphabet", len(c15pwAlpha))
	r.Set("user_names", len(c15users))
	r.Set("texts_rejected_by_parser_not_counted", rejected)
	r.Set("passes_maxlen_and_bounds_struct_spell_value", fmt.Sprint(passes))
	r.Rule = fmt.Sprintf("both password statement kinds x every password of length <=%d over a %d-symbol alphabet (marker letters z,q that occur nowhere else, space, both quotes, backslash, =, ;, tab, newline) [full product] x user names x layouts (keyword case, every gap from {none where legal, space, two spaces, tab, LF, CRLF, block comment, line comment}) x context (alone, before/after another statement, two password statements, no space after ;) within the deviation bounds; only texts the parser accepts are counted. Oracle: Sanitize(text) == text with exactly the password literal spans replaced; String() contains no marker letter of the password (the replacement text itself is read off the simplest statement, not assumed). Plus every non-password statement of the grammar model within 1 deviation and hand-picked texts containing the words: must come back unchanged. Plus a family of spellings of the clause that the parser rejects today (doubled quotes, single-quoted user names, ...): whenever one is accepted, the password token is located with the scanner under test and Sanitize must have replaced exactly it.", maxLen, len(c15pwAlpha))
}
