// Package gram is the grammar model: one generator per statement form and per clause/expression
// production. A generator builds, through the choices of an xplore.Ctx, both the token sequence
// of a statement and the AST the text denotes (assembled by hand from the public struct types,
// never by calling the parser). A renderer turns the tokens into text through further choices
// (keyword case, identifier quoting, whitespace at gaps).
//
// Cost classes: 0 structural (optional clause present, one more list element, alternative form),
// 1 spelling (case, quoting, whitespace), 2 value (another identifier / literal / operator from the
// value alphabets).
package gram

import (
	"math"
	"regexp"
	"strconv"
	"strings"
	"time"
	"unicode/utf8"

	"github.com/influxdata/influxql"

	"verif/harness/xplore"
)

const (
	CStruct = 0
	CSpell  = 1
	CValue  = 2
)

// Kind of a token.
type Kind int

const (
	KW Kind = iota
	IDENT
	FUNC     // function / pseudo-function name: an identifier compared case-insensitively
	TYPENAME // cast type name: identifier compared case-insensitively
	RAWIDENT // identifier that must be written bare and exactly (ORDER BY time)
	STR
	INT
	NUM
	DUR
	REGEX
	PUNCT
	PARAM
)

// Tok is one token of the generated statement.
type Tok struct {
	K     Kind
	Text  string // KW: canonical upper case; IDENT/STR: value; INT/NUM/DUR: spelling; REGEX: source; PUNCT: text; PARAM: name
	NoGap bool   // nothing may stand between the previous token and this one
	Role  string // what the token denotes (for slot-directed checks)
}

// Spec is a generated statement.
type Spec struct {
	Form string
	Stmt influxql.Statement
	Expr influxql.Expr
	Toks []Tok
}

// G is a generator bound to one execution.
type G struct {
	C      *xplore.Ctx
	Toks   []Tok
	nogap  bool
	MaxSub int // subquery nesting still allowed
	// Hook, when set, is consulted for every value token (IDENT, STR, INT, NUM, DUR, REGEX) in emission order.
	// It may replace the token by a parameter placeholder and/or override the value.
	Hook    func(idx int, k Kind, role string, def string) (text string, param string)
	nValues int
	// Flags
	NoValueAlts bool   // never ask for alternative values (identifiers/literals stay at their defaults)
	InvalidWhy  string // set when the generated text is one the parser rejects on purpose
}

func New(c *xplore.Ctx) *G { return &G{C: c, MaxSub: 2} }

func (g *G) emit(t Tok) {
	if g.nogap {
		t.NoGap = true
		g.nogap = false
	}
	g.Toks = append(g.Toks, t)
}

// Glue makes the next token attach to the previous one without a gap.
func (g *G) Glue() { g.nogap = true }

func (g *G) kw(words ...string) {
	for _, w := range words {
		g.emit(Tok{K: KW, Text: w})
	}
}
func (g *G) p(text string) { g.emit(Tok{K: PUNCT, Text: text}) }

// opt is a costed structural option.
func (g *G) opt() bool { return g.C.Choose(2) == 1 }

// value routes a value token through the hook.
func (g *G) value(k Kind, role, def string) string {
	idx := g.nValues
	g.nValues++
	if g.Hook != nil {
		text, param := g.Hook(idx, k, role, def)
		if param != "" {
			g.emit(Tok{K: PARAM, Text: param, Role: role})
			return text
		}
		def = text
	}
	g.emit(Tok{K: k, Text: def, Role: role})
	return def
}

// ---- value alphabets (choice 0 is the role's own default) ------------------------------------------

// (the last three: the longest keyword, one of the shortest, and the longest in upper case)
var hardIdents = []string{"b", "_x1", "my db", `sel"ect`, "select", "1h", "a.b", "é👍", "new\nline", "Time", `back\slash`, "true", "OR", "time", "subscriptions", "on", "SUBSCRIPTIONS", "tab\there", "nb\u00a0sp", "\ufeffbom", "del\x7f", "it's", "zw\u200bsp"}
var hardStrings = []string{"", "it's", `a\b`, "x\ny", "é", "; DROP DATABASE d --", `"`, "/* c */"}

func (g *G) ident(role, def string) string {
	name := def
	if !g.NoValueAlts {
		if k := g.C.ChooseC(CValue, 1+len(hardIdents)); k > 0 {
			name = hardIdents[k-1]
		}
	}
	return g.value(IDENT, role, name)
}

func (g *G) str(role, def string) string {
	v := def
	if !g.NoValueAlts {
		if k := g.C.ChooseC(CValue, 1+len(hardStrings)); k > 0 {
			v = hardStrings[k-1]
		}
	}
	return g.value(STR, role, v)
}

// pick chooses a spelling among alts at value cost; returns the index.
func (g *G) pick(n int) int {
	if g.NoValueAlts {
		return 0
	}
	return g.C.ChooseC(CValue, n)
}

// count emits an INTEGER for LIMIT-like slots (non-negative int).
func (g *G) count(role string, def string) int {
	// the last two: the largest count, and one beyond it, which the parser clamps to the largest (strconv's range rule)
	alts := []string{def, "0", "10", "2147483647", "9223372036854775807", "9223372036854775808", "010"}
	t := g.value(INT, role, alts[g.pick(len(alts))])
	n, _ := strconv.ParseInt(t, 10, 64)
	return int(n)
}

type durAlt struct {
	text string
	d    time.Duration
}

var durAlts = []durAlt{{"1h", time.Hour}, {"0s", 0}, {"90m", 90 * time.Minute}, {"1h30m", 90 * time.Minute}, {"1500ms", 1500 * time.Millisecond},
	{"1ns", 1}, {"1u", time.Microsecond}, {"1µ", time.Microsecond}, {"2w", 14 * 24 * time.Hour}, {"106751d", 106751 * 24 * time.Hour}, {"10m", 10 * time.Minute}, {"2562024h", 106751 * 24 * time.Hour}, {"9223372036s", 9223372036 * time.Second},
	// several components: the micro sign in a later one, and more than two
	{"1ms500µ", 1500 * time.Microsecond}, {"1h30m15s", 5415 * time.Second}, {"2s10µ5ns", 2*time.Second + 10*time.Microsecond + 5}}

func durByText(t string) time.Duration {
	for _, d := range durAlts {
		if d.text == t {
			return d.d
		}
	}
	d, err := ParseDur(t)
	if err != nil {
		panic("gram: bad duration " + t)
	}
	return d
}

// ParseDur is the model's own exact duration parser (single or multiple components).
func ParseDur(s string) (time.Duration, error) {
	units := map[string]int64{"ns": 1, "u": 1e3, "µ": 1e3, "ms": 1e6, "s": 1e9, "m": 60e9, "h": 3600e9, "d": 86400e9, "w": 604800e9}
	var total int64
	i := 0
	if s == "" {
		return 0, strconv.ErrSyntax
	}
	for i < len(s) {
		j := i
		for j < len(s) && s[j] >= '0' && s[j] <= '9' {
			j++
		}
		if j == i {
			return 0, strconv.ErrSyntax
		}
		n, err := strconv.ParseInt(s[i:j], 10, 64)
		if err != nil {
			return 0, err
		}
		k := j
		for k < len(s) && !(s[k] >= '0' && s[k] <= '9') {
			k++
		}
		u, ok := units[s[j:k]]
		if !ok {
			return 0, strconv.ErrSyntax
		}
		if n != 0 && (n > math.MaxInt64/u || total > math.MaxInt64-n*u) {
			return 0, strconv.ErrRange
		}
		total += n * u
		i = k
	}
	return time.Duration(total), nil
}

// dur emits a duration literal; which selects the allowed alternatives (0 = all, 1 = positive only).
func (g *G) dur(role, def string) time.Duration {
	alts := []string{def}
	for _, d := range durAlts {
		if d.text != def {
			alts = append(alts, d.text)
		}
	}
	t := g.value(DUR, role, alts[g.pick(len(alts))])
	return durByText(t)
}

var regexAlts = []string{"a", "a.*", "a/b", "^(a|b)$", `\d+`, "[a-z]{2}", `a\\/b`, `\\/`, `a"b`, `it's`}

func (g *G) regex(role string) *influxql.RegexLiteral {
	src := g.value(REGEX, role, regexAlts[g.pick(len(regexAlts))])
	return &influxql.RegexLiteral{Val: regexp.MustCompile(src)}
}

// ---- keywords -----------------------------------------------------------------------------------------

var Keywords = map[string]bool{}

func init() {
	for _, w := range strings.Fields(`ALL ALTER ANALYZE ANY AS ASC BEGIN BY CARDINALITY CREATE CONTINUOUS DATABASE DATABASES DEFAULT DELETE DESC
 DESTINATIONS DIAGNOSTICS DISTINCT DROP DURATION END EVERY EXACT EXPLAIN FIELD FOR FROM FUTURE GRANT GRANTS GROUP GROUPS IN INF INSERT INTO KEY KEYS
 KILL LIMIT MEASUREMENT MEASUREMENTS NAME OFFSET ON ORDER PASSWORD PAST POLICY POLICIES PRIVILEGES QUERIES QUERY READ REPLICATION RESAMPLE RETENTION
 REVOKE SELECT SERIES SET SHOW SHARD SHARDS SLIMIT SOFFSET STATS SUBSCRIPTION SUBSCRIPTIONS TAG TO USER USERS VALUES VERBOSE WHERE WITH WRITE
 AND OR TRUE FALSE`) {
		Keywords[w] = true
	}
}

// BareLegal is the specification of identifiers that may be written without quotes.
func BareLegal(s string) bool {
	if s == "" || Keywords[strings.ToUpper(s)] {
		return false
	}
	for i, r := range s {
		letter := (r >= 'a' && r <= 'z') || (r >= 'A' && r <= 'Z') || r == '_'
		digit := r >= '0' && r <= '9'
		if !(letter || (digit && i > 0)) {
			return false
		}
	}
	return true
}

// QuoteIdentSpec and QuoteStringSpec are the model's own quoting rules.
func QuoteIdentSpec(s string) string {
	r := strings.NewReplacer("\n", `\n`, `\`, `\\`, `"`, `\"`)
	return `"` + r.Replace(s) + `"`
}
func QuoteStringSpec(s string) string {
	r := strings.NewReplacer("\n", `\n`, `\`, `\\`, `'`, `\'`)
	return `'` + r.Replace(s) + `'`
}

// Expressible tells whether a string can be written as an InfluxQL string/identifier at all.
func Expressible(s string) bool {
	return utf8.ValidString(s) && !strings.ContainsAny(s, "\x00\r")
}
