package checks

import (
	"encoding/json"
	"fmt"
	"strings"
	"sync"
	"unicode"
	"unicode/utf8"

	"github.com/influxdata/influxql"

	"verif/harness/astx"
	"verif/harness/ev"
	"verif/harness/gram"
)

// C06 — quoting helpers invert the lexer and cannot be broken out of.

var c06alpha = []string{"a", "n", "S", "1", "_", " ", "\t", "\n", "\r", "'", `"`, `\`, ".", ";", "-", "/", "*", "$", "é", "👍", "\x00", "\xff", "(", ","}

type c06tok struct {
	tok influxql.Token
	lit string
}

func c06scan(s string) (out []c06tok, panicked interface{}) {
	p, _ := try(func() {
		sc := influxql.NewScanner(strings.NewReader(s))
		for i := 0; i < len(s)+3; i++ {
			t, _, l := sc.Scan()
			out = append(out, c06tok{t, l})
			if t == influxql.EOF {
				return
			}
		}
	})
	return out, p
}

func c06single(toks []c06tok, kind influxql.Token, val string) bool {
	return len(toks) == 2 && toks[0].tok == kind && toks[0].lit == val && toks[1].tok == influxql.EOF
}

type c06template struct {
	name  string
	pre   string
	post  string
	ident bool   // slot is quoted with QuoteIdent (else QuoteString)
	slot  string // generic path of the slot in the AST dump
	query bool   // parsed with ParseQuery
	tight bool   // no whitespace between the quoted value and its neighbours (only when the value is written in quotes)
}

var c06templates = []c06template{
	{"where-string", "SELECT f FROM m WHERE k = ", " AND j = 'tail'", false, "SelectStatement.Condition.BinaryExpr.LHS.BinaryExpr.RHS.StringLiteral.Val", false, false},
	{"field-name", "SELECT ", ", g FROM m", true, "SelectStatement.Fields[].Field.Expr.VarRef.Val", false, false},
	{"measurement", "SELECT f FROM ", " WHERE a = 1", true, "SelectStatement.Sources[].Measurement.Name", false, false},
	{"password", "CREATE USER u WITH PASSWORD ", " WITH ALL PRIVILEGES", false, "CreateUserStatement.Password", false, false},
	{"list-member", "CREATE SUBSCRIPTION s ON d.r DESTINATIONS ALL 'x', ", ", 'y'", false, "CreateSubscriptionStatement.Destinations[]", false, false},
	{"tag-key", "SHOW TAG VALUES WITH KEY = ", " WHERE a = 'b'", true, "ShowTagValuesStatement.TagKeyExpr.StringLiteral.Val", false, false},
	{"alias", "SELECT f AS ", " FROM m", true, "SelectStatement.Fields[].Field.Alias", false, false},
	{"database", "DROP DATABASE ", "", true, "DropDatabaseStatement.Name", false, false},
	{"retention-policy-segment", "SELECT f FROM db.", ".m", true, "SelectStatement.Sources[].Measurement.RetentionPolicy", false, false},
	{"query-with-tail", "SELECT f FROM m WHERE k = ", "; DROP DATABASE x", false, "Query.Statements[].SelectStatement.Condition.BinaryExpr.RHS.StringLiteral.Val", true, false},
	{"call-argument", "SELECT percentile(f, ", ") FROM m", false, "SelectStatement.Fields[].Field.Expr.Call.Args[].StringLiteral.Val", false, false},
	{"tz", "SELECT f FROM m WHERE k = 'v' GROUP BY ", " fill(none)", true, "SelectStatement.Dimensions[].Dimension.Expr.VarRef.Val", false, false},
	// the same slots with the neighbouring words glued to the quotes
	{"measurement-tight", "SELECT f FROM ", "WHERE a = 1", true, "SelectStatement.Sources[].Measurement.Name", false, true},
	{"alias-tight", "SELECT f AS ", "FROM m", true, "SelectStatement.Fields[].Field.Alias", false, true},
	{"field-name-tight", "SELECT ", "AS g FROM m", true, "SelectStatement.Fields[].Field.Expr.VarRef.Val", false, true},
	{"where-string-tight", "SELECT f FROM m WHERE k =", "AND j = 'tail'", false, "SelectStatement.Condition.BinaryExpr.LHS.BinaryExpr.RHS.StringLiteral.Val", false, true},
	{"delete-tight", "DELETE FROM ", "WHERE host = 'a'", true, "DeleteSeriesStatement.Sources[].Measurement.Name", false, true},
	// directly behind every comparison operator that is scanned with look-ahead
	{"where-string-after-less", "SELECT f FROM m WHERE k<", "AND j = 'tail'", false, "SelectStatement.Condition.BinaryExpr.LHS.BinaryExpr.RHS.StringLiteral.Val", false, true},
	{"where-string-after-greater", "SELECT f FROM m WHERE k>", "AND j = 'tail'", false, "SelectStatement.Condition.BinaryExpr.LHS.BinaryExpr.RHS.StringLiteral.Val", false, true},
	{"where-string-after-not-equal", "SELECT f FROM m WHERE k!=", "AND j = 'tail'", false, "SelectStatement.Condition.BinaryExpr.LHS.BinaryExpr.RHS.StringLiteral.Val", false, true},
	{"where-name-after-less-equal", "SELECT f FROM m WHERE 1<=", "AND j = 'tail'", true, "SelectStatement.Condition.BinaryExpr.LHS.BinaryExpr.RHS.VarRef.Val", false, true},
}

// c06params: the texts are read by a parser that has values bound under the short names the alphabet can spell. A
// quoted `$n` is a string or a name, not a placeholder, whatever is bound.
var c06params = map[string]interface{}{"n": int64(5), "a": map[string]interface{}{"identifier": "zz"}, "S": "bound", "an": 1.5, "na": true, "_": "u", "1": int64(1), "": "empty"}

func c06parse(t c06template, text string) (interface{}, error) {
	p := influxql.NewParser(strings.NewReader(text))
	p.SetParams(c06params)
	if t.query {
		q, err := p.ParseQuery()
		if err != nil {
			return nil, err
		}
		return q, nil
	}
	s, err := p.ParseStatement()
	if err != nil {
		return nil, err
	}
	return s, nil
}

var c06base = map[string]string{}

// c06baseDump parses the template with a harmless value in the slot. A template that the code under test rejects
// (or panics on) is a finding of its own, never a reason for the harness to stop.
func c06baseDump(t c06template) (dump string, why string) {
	q := "'PLACEHOLDER'"
	if t.ident {
		q = "PLACEHOLDER"
		if t.tight {
			q = `"PLACEHOLDER"`
		}
	}
	var ast interface{}
	var err error
	if p, _ := try(func() { ast, err = c06parse(t, t.pre+q+t.post) }); p != nil {
		return "", fmt.Sprintf("%q panics: %v", t.pre+q+t.post, p)
	}
	if err != nil {
		return "", fmt.Sprintf("%q is rejected: %v", t.pre+q+t.post, err)
	}
	return astx.Dump(astx.Denoted, ast), ""
}

var c06baseOnce sync.Once
var c06baseWhy = map[string]string{}

func c06bases() {
	c06baseOnce.Do(func() {
		for _, t := range c06templates {
			c06base[t.name], c06baseWhy[t.name] = c06baseDump(t)
		}
	})
}

type c06Case struct {
	S string `json:"s"` // hex-safe: JSON escapes
	B []byte `json:"b"` // exact bytes
}

func c06eval(c c06Case) []ev.Finding {
	s := string(c.B)
	var fs []ev.Finding
	wit := fmt.Sprintf("%q", s)
	rep := func(sig, detail string) {
		fs = append(fs, ev.Finding{Sig: sig, Witness: wit, Detail: detail, Case: c, Rank: len(s)})
	}
	expressible := gram.Expressible(s)
	var qs, qi string
	var needs bool
	if p, st := try(func() {
		qs = influxql.QuoteString(s)
		qi = influxql.QuoteIdent(s)
		needs = influxql.IdentNeedsQuotes(s)
	}); p != nil {
		rep("panic:quote-helpers", fmt.Sprint(p)+st)
		return fs
	}
	if expressible {
		toks, p := c06scan(qs)
		if p != nil {
			rep("panic:Scan", fmt.Sprint(p))
		} else if !c06single(toks, influxql.STRING, s) {
			rep("QuoteString-not-inverted", fmt.Sprintf("QuoteString = %q scans as %v", qs, toks))
		}
		toks, p = c06scan(qi)
		if p != nil {
			rep("panic:Scan", fmt.Sprint(p))
		} else if !c06single(toks, influxql.IDENT, s) {
			rep("QuoteIdent-not-inverted", fmt.Sprintf("QuoteIdent = %q scans as %v", qi, toks))
		}
		if s != "" {
			toks, _ = c06scan(s)
			bare := c06single(toks, influxql.IDENT, s)
			if bare == needs {
				rep("IdentNeedsQuotes-disagrees-with-lexer", fmt.Sprintf("IdentNeedsQuotes = %v but written bare it scans as %v", needs, toks))
			}
		}
	}
	// no break-out, whatever the string
	c06bases()
	for _, t := range c06templates {
		if why := c06baseWhy[t.name]; why != "" {
			fs = append(fs, ev.Finding{Sig: "template-with-plain-value-not-accepted:" + t.name, Witness: t.pre + "…" + t.post, Detail: why, Case: c, Rank: 0})
			continue
		}
		q := qs
		if t.ident {
			q = qi
		}
		if t.tight && !strings.HasPrefix(q, `"`) && !strings.HasPrefix(q, "'") {
			continue // written bare: the neighbours need a separator
		}
		text := t.pre + q + t.post
		var ast interface{}
		var err error
		if p, st := try(func() { ast, err = c06parse(t, text) }); p != nil {
			rep("panic:parse:"+t.name, fmt.Sprint(p)+st)
			continue
		}
		if err != nil {
			if expressible {
				rep("expressible-value-rejected:"+t.name, fmt.Sprintf("%q: %v", text, err))
			}
			continue
		}
		base := strings.Split(c06base[t.name], "\n")
		got := strings.Split(astx.Dump(astx.Denoted, ast), "\n")
		if len(base) != len(got) {
			rep("break-out:"+t.name, fmt.Sprintf("%q parses to a differently shaped AST (%d vs %d leaves)", text, len(got), len(base)))
			continue
		}
		ndiff := 0
		for i := range base {
			if base[i] != got[i] {
				ndiff++
				path := got[i]
				if k := strings.Index(path, " = "); k > 0 {
					path = path[:k]
				}
				if astx.GenericPath(path) != t.slot {
					rep("break-out:"+t.name, fmt.Sprintf("%q changes %s", text, got[i]))
				} else if expressible && got[i][strings.Index(got[i], " = ")+3:] != fmt.Sprintf("%q", s) && !strings.HasSuffix(got[i], fmt.Sprintf("%q", s)) {
					rep("slot-value-differs:"+t.name, fmt.Sprintf("%q: slot holds %s, want %q", text, got[i], s))
				}
			}
		}
		if ndiff > 1 {
			rep("break-out:"+t.name, fmt.Sprintf("%q changes %d leaves", text, ndiff))
		}
	}
	return fs
}

var c06segs = []string{"a", "", "my db", "x.y", `q"t`, "select", "1", "é"}

func c06triple(db, rp, m string) []ev.Finding {
	cs := map[string]string{"db": db, "rp": rp, "m": m}
	q := influxql.QuoteIdent(db, rp, m)
	text := "SELECT f FROM " + q
	wit := fmt.Sprintf("QuoteIdent(%q, %q, %q) = %s", db, rp, m, q)
	// the same call with the caller's own slice spread out: the slice is the caller's, and a second call gives the same text
	parts := []string{db, rp, m}
	q2 := influxql.QuoteIdent(parts...)
	if parts[0] != db || parts[1] != rp || parts[2] != m {
		return []ev.Finding{{Sig: "QuoteIdent-changes-its-argument", Witness: wit, Detail: fmt.Sprintf("after QuoteIdent(parts...) the caller's slice holds %q", parts), Case: cs}}
	}
	if q3 := influxql.QuoteIdent(parts...); q2 != q || q3 != q {
		return []ev.Finding{{Sig: "QuoteIdent-differs-between-calls", Witness: wit, Detail: fmt.Sprintf("spread call %s, second spread call %s", q2, q3), Case: cs}}
	}
	stmt, err := influxql.ParseStatement(text)
	if err != nil {
		return []ev.Finding{{Sig: "triple-rejected", Witness: wit, Detail: err.Error(), Case: cs}}
	}
	src := stmt.(*influxql.SelectStatement).Sources
	if len(src) != 1 {
		return []ev.Finding{{Sig: "triple-sources", Witness: wit, Detail: fmt.Sprint(len(src)), Case: cs}}
	}
	mm, ok := src[0].(*influxql.Measurement)
	if !ok || mm.Database != db || mm.RetentionPolicy != rp || mm.Name != m || mm.Regex != nil {
		return []ev.Finding{{Sig: "triple-not-inverted", Witness: wit, Detail: fmt.Sprintf("parsed %+v", src[0]), Case: cs}}
	}
	// and through the printer
	if again := mm.String(); again != q {
		if st2, err := influxql.ParseStatement("SELECT f FROM " + again); err != nil || !astx.Equal(astx.Denoted, stmt, st2) {
			return []ev.Finding{{Sig: "triple-print-not-inverted", Witness: wit, Detail: fmt.Sprintf("Measurement.String() = %s", again), Case: cs}}
		}
	}
	return nil
}

func init() {
	register(&Check{ID: "C06", Run: c06run, Replay: func(raw json.RawMessage) []ev.Finding {
		var probe map[string]json.RawMessage
		if json.Unmarshal(raw, &probe) != nil {
			return nil
		}
		if _, ok := probe["db"]; ok {
			var m map[string]string
			json.Unmarshal(raw, &m)
			return c06triple(m["db"], m["rp"], m["m"])
		}
		var c c06Case
		json.Unmarshal(raw, &c)
		return c06eval(c)
	}})
}

func c06run(r *ev.Run) {
	th := thorough(r)
	L := 3
	if th {
		L = 4
	}
	na := len(c06alpha)
	var expressibleN int64
	var mu syncMutex
	run := func(s string) {
		n := r.Eval()
		r.Trans(int64(len(c06templates)) + 3)
		ex := gram.Expressible(s)
		if ex {
			mu.Lock()
			expressibleN++
			mu.Unlock()
		}
		r.State(astx.HashString(s), ex)
		r.Sample(n, func() interface{} { return fmt.Sprintf("%q", s) })
		for _, f := range c06eval(c06Case{S: s, B: []byte(s)}) {
			r.Report(f)
		}
	}
	total := 0
	pow := 1
	for l := 0; l <= L; l++ {
		total += pow
		pow *= na
	}
	parallelFor(total, func(idx int) {
		// decode idx into a string of length l
		l, base, p := 0, 0, 1
		for idx >= base+p {
			base += p
			p *= na
			l++
		}
		x := idx - base
		var b strings.Builder
		for i := 0; i < l; i++ {
			b.WriteString(c06alpha[x%na])
			x /= na
		}
		run(b.String())
	})
	// long values: around the buffer sizes a reader or a scanner may have (4 KiB, 64 KiB) and beyond, in one-byte and
	// two-byte characters, with and without characters that need quoting or escaping
	for _, unit := range []string{"a", "é", "a b", `"`, "\\n"[:1] + "x"} {
		for _, total := range []int{255, 256, 4095, 4096, 4097, 65535, 65536, 65537, 1 << 17} {
			s := strings.Repeat(unit, total/len(unit)+1)[:total/len(unit)*len(unit)]
			n := r.Eval()
			r.Trans(int64(len(c06templates)) + 3)
			r.State(astx.HashString(s), true)
			r.Sample(n, func() interface{} { return fmt.Sprintf("%q repeated to %d bytes", unit, len(s)) })
			for _, f := range c06eval(c06Case{S: "", B: []byte(s)}) {
				if len(f.Witness) > 200 {
					f.Witness = f.Witness[:100] + fmt.Sprintf("… (%d bytes of %q)", len(s), unit)
				}
				if len(f.Detail) > 600 {
					f.Detail = f.Detail[:300] + " … " + f.Detail[len(f.Detail)-200:]
				}
				r.Report(f)
			}
		}
	}
	// keywords in case patterns
	var kws []string
	for k := range gram.Keywords {
		kws = append(kws, k)
	}
	sortStrings(kws)
	var cased []string
	for _, k := range kws {
		lo := strings.ToLower(k)
		if len(k) <= 6 {
			for m := 0; m < 1<<len(k); m++ {
				b := []byte(lo)
				for i := range b {
					if m&(1<<i) != 0 {
						b[i] = byte(unicode.ToUpper(rune(b[i])))
					}
				}
				cased = append(cased, string(b))
			}
		} else {
			alt := []byte(lo)
			for i := 0; i < len(alt); i += 2 {
				alt[i] = byte(unicode.ToUpper(rune(alt[i])))
			}
			cased = append(cased, lo, k, string(alt), k+"x", "x"+lo, lo+"1")
		}
	}
	parallelFor(len(cased), func(i int) { run(cased[i]) })
	// all 2-rune strings over a rune set covering the classes the lexer distinguishes and their neighbours
	var runes []rune
	for rr := rune(1); rr < 0x180; rr++ {
		runes = append(runes, rr)
	}
	// both sides of every UTF-8 length boundary, and a few classes the lexer could confuse
	runes = append(runes, 0x7FF, 0x800, 0xD7FF, 0xE000, 0xFFFF, 0x10000, 0x2028, 0x3000, 0xFEFF, 0xFFFD, 0x1F44D, 0x10FFFF, 0x3BC)
	if !th {
		var sub []rune
		for i, rr := range runes {
			if rr <= 0x90 || rr >= 0xFF || i%8 == 0 {
				sub = append(sub, rr)
			}
		}
		runes = sub
	}
	parallelFor(len(runes), func(i int) {
		for _, b := range runes {
			var buf [8]byte
			n1 := utf8.EncodeRune(buf[:], runes[i])
			n2 := utf8.EncodeRune(buf[n1:], b)
			run(string(buf[:n1+n2]))
		}
	})
	// name triples
	for _, db := range c06segs {
		for _, rp := range c06segs {
			for _, m := range c06segs {
				if m == "" || db == "" {
					continue // an empty first or last segment is not a name
				}
				r.Eval()
				r.State(astx.HashString("T|"+db+"|"+rp+"|"+m), true)
				for _, f := range c06triple(db, rp, m) {
					r.Report(f)
				}
			}
		}
	}
	r.Set("alphabet", na)
	r.Set("max_len", L)
	r.Set("keyword_case_variants", len(cased))
	r.Set("two_rune_set", len(runes))
	r.Set("templates", len(c06templates))
	r.Set("expressible_strings", expressibleN)
	r.Rule = fmt.Sprintf("every string of length <=%d over a %d-symbol alphabet (every character class the escaper and the lexer distinguish, incl. NUL, CR, an invalid byte), every keyword in every case pattern, every 2-rune string over %d runes, and (db, rp, m) triples over 8 segment values; for each: quote-then-scan inversion (expressible strings), IdentNeedsQuotes vs the lexer, and insertion into %d statement templates (must error or change exactly the slot). non-trivial = expressible string", L, na, len(runes), len(c06templates))
}
