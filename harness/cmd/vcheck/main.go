// vcheck runs one property check (`vcheck C03 quick`) or replays a violation (`vcheck replay file.json`).
package main

import (
	"encoding/json"
	"fmt"
	"os"
	"runtime"
	"runtime/debug"
	"runtime/pprof"
	"strconv"
	"strings"
	"sync/atomic"
	"time"
	"verif/harness/xplore"

	"verif/harness/checks"
	"verif/harness/ev"
)

var ballast []byte

func main() {
	if len(os.Args) < 3 {
		fmt.Println("usage: vcheck <id> quick|thorough | vcheck replay <file> | vcheck list x")
		os.Exit(2)
	}
	if os.Args[1] == "c04-deep" && len(os.Args) == 4 {
		// child process of C04's deep-nesting probe: the parse may end the process
		n, _ := strconv.Atoi(os.Args[3])
		checks.C04DeepChild(os.Args[2], n)
		return
	}
	if os.Args[1] == "list" {
		for _, id := range checks.IDs() {
			fmt.Println(id)
		}
		return
	}
	if os.Args[1] == "replay" {
		os.Exit(replay(os.Args[2]))
	}
	id, tier := os.Args[1], os.Args[2]
	if tier != "quick" && tier != "thorough" {
		fmt.Println("tier must be quick or thorough")
		os.Exit(2)
	}
	c := checks.Get(id)
	if c == nil {
		fmt.Printf("HARNESS-ERROR: no check registered for %s\n", id)
		os.Exit(2)
	}
	if os.Getenv("VERIF_SUPERVISED") == "" {
		os.Exit(ev.Supervise(id, tier))
	}
	seed, _ := strconv.ParseInt(os.Getenv("VERIF_SEED"), 10, 64)
	// In this kind of VM garbage-collection cycles (stop-the-world hand-shakes) and first-touch page faults are
	// expensive and serialise allocation-heavy workers. A pointer-free, never-touched ballast makes cycles rare
	// (one per ~ballast bytes allocated) while the heap that is actually touched stays small and is reused.
	ballast = make([]byte, 768<<20)
	gcp := 100
	if v, err := strconv.Atoi(os.Getenv("VERIF_GOGC")); err == nil {
		gcp = v
	}
	debug.SetGCPercent(gcp)
	if os.Getenv("VERIF_BLOCKPROF") != "" {
		runtime.SetBlockProfileRate(1000)
		runtime.SetMutexProfileFraction(10)
	}
	if pf := os.Getenv("VERIF_PROF"); pf != "" {
		f, _ := os.Create(pf)
		pprof.StartCPUProfile(f)
		defer pprof.StopCPUProfile()
	}
	r := ev.NewRun(id, tier, seed, runtime.GOMAXPROCS(0))
	r.ReplayFn = c.Replay
	// Watchdog: a library call that never returns (an endless loop, a lock that is never released) stops a check
	// that has no guard of its own around that call. If nothing at all is evaluated or explored during two
	// consecutive windows, and some goroutine is inside the library, that is reported as a violation with the
	// goroutine dump; without a library frame it is a failure of the harness.
	window := 5 * time.Minute
	if v, err := strconv.Atoi(os.Getenv("VERIF_WATCHDOG_SEC")); err == nil && v > 0 {
		window = time.Duration(v) * time.Second
	}
	var running int32 = 1
	go func() {
		last, idle := int64(-1), 0
		for atomic.LoadInt32(&running) == 1 {
			time.Sleep(window)
			now := atomic.LoadInt64(&r.Evaluations) + atomic.LoadInt64(&r.Transitions) + atomic.LoadInt64(&xplore.Beats) + atomic.LoadInt64(&checks.Beats)
			if now != last {
				last, idle = now, 0
				continue
			}
			idle++
			if idle < 2 || atomic.LoadInt32(&running) != 1 {
				continue
			}
			buf := make([]byte, 4<<20)
			buf = buf[:runtime.Stack(buf, true)]
			text := fmt.Sprintf("no case was evaluated for %v\n%s", 2*window, buf)
			if where := libraryFrame(string(buf)); where != "" {
				path := ev.WriteCrash(id, tier, "library-call-does-not-return:"+where, text)
				fmt.Printf("VIOLATION property=%s replay=%s\n  sig=library-call-does-not-return:%s\n  no case was evaluated for %v; a goroutine is inside %s\n", id, path, where, 2*window, where)
				os.Exit(1)
			}
			fmt.Printf("HARNESS-ERROR: check %s made no progress for %v and no goroutine is inside the library\n%s\n", id, 2*window, buf)
			os.Exit(2)
		}
	}()
	func() {
		defer func() {
			if p := recover(); p != nil {
				text := fmt.Sprintf("%v\n%s", p, debug.Stack())
				if where := libraryPanic(text); where != "" {
					// the code under test panicked in a call the check does not guard: no statement of any property
					// survives that, and it is reported as a violation, not as a failure of the harness
					path := ev.WriteCrash(id, tier, "uncaught-panic-in-library:"+where, text)
					fmt.Printf("VIOLATION property=%s replay=%s\n  sig=uncaught-panic-in-library:%s\n  %s\n", id, path, where, strings.SplitN(text, "\n", 2)[0])
					os.Exit(1)
				}
				fmt.Printf("HARNESS-ERROR: check %s panicked: %s\n", id, text)
				os.Exit(2)
			}
		}()
		c.Run(r)
	}()
	atomic.StoreInt32(&running, 0)
	rc := r.Finish()
	if bf := os.Getenv("VERIF_BLOCKPROF"); bf != "" {
		f, _ := os.Create(bf)
		pprof.Lookup("block").WriteTo(f, 0)
		f.Close()
		f, _ = os.Create(bf + ".mutex")
		pprof.Lookup("mutex").WriteTo(f, 0)
		f.Close()
	}
	if mf := os.Getenv("VERIF_MEMPROF"); mf != "" {
		f, _ := os.Create(mf)
		pprof.Lookup("allocs").WriteTo(f, 0)
		f.Close()
	}
	pprof.StopCPUProfile()
	runtime.KeepAlive(ballast)
	os.Exit(rc)
}

// libraryPanic inspects a panic report (value + goroutine stack, possibly nested from a worker) and returns the
// library function in which the panic was raised, or "" if the innermost non-runtime frame is harness code.
func libraryPanic(text string) string {
	lines := strings.Split(text, "\n")
	for i := 0; i < len(lines); i++ {
		if !strings.HasPrefix(lines[i], "panic(") {
			continue
		}
		for j := i + 1; j < len(lines); j++ {
			l := lines[j]
			if l == "" || strings.HasPrefix(l, "\t") || strings.HasPrefix(l, " ") {
				continue
			}
			if strings.HasPrefix(l, "runtime.") || strings.HasPrefix(l, "panic(") || strings.HasPrefix(l, "goroutine ") || strings.HasPrefix(l, "reflect.") {
				continue
			}
			if strings.HasPrefix(l, "github.com/influxdata/influxql.") {
				fn := strings.TrimPrefix(l, "github.com/influxdata/influxql.")
				if k := strings.LastIndex(fn, "("); k > 0 {
					fn = fn[:k]
				}
				return fn
			}
			// standard-library frames (regexp, strconv, sort ...) between the panic and the library: keep looking
			if !strings.Contains(l, "verif/harness") && !strings.HasPrefix(l, "main.") {
				continue
			}
			return ""
		}
	}
	return ""
}

// libraryFrame returns the innermost library function found on any goroutine stack of a full dump.
func libraryFrame(dump string) string {
	for _, l := range strings.Split(dump, "\n") {
		if strings.HasPrefix(l, "github.com/influxdata/influxql.") {
			fn := strings.TrimPrefix(l, "github.com/influxdata/influxql.")
			if k := strings.LastIndex(fn, "("); k > 0 {
				fn = fn[:k]
			}
			return fn
		}
	}
	return ""
}

func replay(path string) int {
	b, err := os.ReadFile(path)
	if err != nil {
		fmt.Println("HARNESS-ERROR:", err)
		return 2
	}
	var rf ev.ReplayFile
	if err := json.Unmarshal(b, &rf); err != nil {
		fmt.Println("HARNESS-ERROR:", err)
		return 2
	}
	if strings.HasPrefix(rf.Sig, "uncaught-panic-in-library:") || strings.HasPrefix(rf.Sig, "library-call-does-not-return:") || strings.HasPrefix(rf.Sig, "fatal-error-in-library:") {
		fmt.Printf("crash record of %s (%s): the library panicked in a call the check does not guard; re-run `./check %s %s` to see whether it still does.\n%s\n", rf.Property, rf.Sig, rf.Property, rf.Tier, rf.Detail)
		return 0
	}
	c := checks.Get(rf.Property)
	if c == nil || c.Replay == nil {
		fmt.Printf("HARNESS-ERROR: no replay for %s\n", rf.Property)
		return 2
	}
	fs := c.Replay(rf.Case)
	hit := false
	for _, f := range fs {
		fmt.Printf("replayed: sig=%s witness=%q :: %s\n", f.Sig, f.Witness, f.Detail)
		if f.Sig == rf.Sig {
			hit = true
		}
	}
	if hit {
		fmt.Printf("VIOLATION property=%s replay=%s\n", rf.Property, path)
		return 1
	}
	fmt.Printf("replay of %s: recorded violation %s does not occur on this tree (%d other findings)\n", path, rf.Sig, len(fs))
	return 0
}
