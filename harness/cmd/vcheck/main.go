// vcheck runs one property check (`vcheck C03 quick`) or replays a violation (`vcheck replay file.json`).
package main

import (
	"encoding/json"
	"fmt"
	"os"
	"runtime"
	"runtime/debug"
	"runtime/pprof"
	"strconv"
	"strings"

	"verif/harness/checks"
	"verif/harness/ev"
)

var ballast []byte

func main() {
	if len(os.Args) < 3 {
		fmt.Println("usage: vcheck <id> quick|thorough | vcheck replay <file> | vcheck list x")
		os.Exit(2)
	}
	if os.Args[1] == "list" {
		for _, id := range checks.IDs() {
			fmt.Println(id)
		}
		return
	}
	if os.Args[1] == "replay" {
		os.Exit(replay(os.Args[2]))
	}
	id, tier := os.Args[1], os.Args[2]
	if tier != "quick" && tier != "thorough" {
		fmt.Println("tier must be quick or thorough")
		os.Exit(2)
	}
	c := checks.Get(id)
	if c == nil {
		fmt.Printf("HARNESS-ERROR: no check registered for %s\n", id)
		os.Exit(2)
	}
	seed, _ := strconv.ParseInt(os.Getenv("VERIF_SEED"), 10, 64)
	// In this kind of VM garbage-collection cycles (stop-the-world hand-shakes) and first-touch page faults are
	// expensive and serialise allocation-heavy workers. A pointer-free, never-touched ballast makes cycles rare
	// (one per ~ballast bytes allocated) while the heap that is actually touched stays small and is reused.
	ballast = make([]byte, 768<<20)
	gcp := 100
	if v, err := strconv.Atoi(os.Getenv("VERIF_GOGC")); err == nil {
		gcp = v
	}
	debug.SetGCPercent(gcp)
	if os.Getenv("VERIF_BLOCKPROF") != "" {
		runtime.SetBlockProfileRate(1000)
		runtime.SetMutexProfileFraction(10)
	}
	if pf := os.Getenv("VERIF_PROF"); pf != "" {
		f, _ := os.Create(pf)
		pprof.StartCPUProfile(f)
		defer pprof.StopCPUProfile()
	}
	r := ev.NewRun(id, tier, seed, runtime.GOMAXPROCS(0))
	r.ReplayFn = c.Replay
	func() {
		defer func() {
			if p := recover(); p != nil {
				text := fmt.Sprintf("%v\n%s", p, debug.Stack())
				if where := libraryPanic(text); where != "" {
					// the code under test panicked in a call the check does not guard: no statement of any property
					// survives that, and it is reported as a violation, not as a failure of the harness
					path := ev.WriteCrash(id, tier, "uncaught-panic-in-library:"+where, text)
					fmt.Printf("VIOLATION property=%s replay=%s\n  sig=uncaught-panic-in-library:%s\n  %s\n", id, path, where, strings.SplitN(text, "\n", 2)[0])
					os.Exit(1)
				}
				fmt.Printf("HARNESS-ERROR: check %s panicked: %s\n", id, text)
				os.Exit(2)
			}
		}()
		c.Run(r)
	}()
	rc := r.Finish()
	if bf := os.Getenv("VERIF_BLOCKPROF"); bf != "" {
		f, _ := os.Create(bf)
		pprof.Lookup("block").WriteTo(f, 0)
		f.Close()
		f, _ = os.Create(bf + ".mutex")
		pprof.Lookup("mutex").WriteTo(f, 0)
		f.Close()
	}
	if mf := os.Getenv("VERIF_MEMPROF"); mf != "" {
		f, _ := os.Create(mf)
		pprof.Lookup("allocs").WriteTo(f, 0)
		f.Close()
	}
	pprof.StopCPUProfile()
	runtime.KeepAlive(ballast)
	os.Exit(rc)
}

// libraryPanic inspects a panic report (value + goroutine stack, possibly nested from a worker) and returns the
// library function in which the panic was raised, or "" if the innermost non-runtime frame is harness code.
func libraryPanic(text string) string {
	lines := strings.Split(text, "\n")
	for i := 0; i < len(lines); i++ {
		if !strings.HasPrefix(lines[i], "panic(") {
			continue
		}
		for j := i + 1; j < len(lines); j++ {
			l := lines[j]
			if l == "" || strings.HasPrefix(l, "\t") || strings.HasPrefix(l, " ") {
				continue
			}
			if strings.HasPrefix(l, "runtime.") || strings.HasPrefix(l, "panic(") || strings.HasPrefix(l, "goroutine ") || strings.HasPrefix(l, "reflect.") {
				continue
			}
			if strings.HasPrefix(l, "github.com/influxdata/influxql.") {
				fn := strings.TrimPrefix(l, "github.com/influxdata/influxql.")
				if k := strings.LastIndex(fn, "("); k > 0 {
					fn = fn[:k]
				}
				return fn
			}
			// standard-library frames (regexp, strconv, sort ...) between the panic and the library: keep looking
			if !strings.Contains(l, "verif/harness") && !strings.HasPrefix(l, "main.") {
				continue
			}
			return ""
		}
	}
	return ""
}

func replay(path string) int {
	b, err := os.ReadFile(path)
	if err != nil {
		fmt.Println("HARNESS-ERROR:", err)
		return 2
	}
	var rf ev.ReplayFile
	if err := json.Unmarshal(b, &rf); err != nil {
		fmt.Println("HARNESS-ERROR:", err)
		return 2
	}
	if strings.HasPrefix(rf.Sig, "uncaught-panic-in-library:") {
		fmt.Printf("crash record of %s (%s): the library panicked in a call the check does not guard; re-run `./check %s %s` to see whether it still does.\n%s\n", rf.Property, rf.Sig, rf.Property, rf.Tier, rf.Detail)
		return 0
	}
	c := checks.Get(rf.Property)
	if c == nil || c.Replay == nil {
		fmt.Printf("HARNESS-ERROR: no replay for %s\n", rf.Property)
		return 2
	}
	fs := c.Replay(rf.Case)
	hit := false
	for _, f := range fs {
		fmt.Printf("replayed: sig=%s witness=%q :: %s\n", f.Sig, f.Witness, f.Detail)
		if f.Sig == rf.Sig {
			hit = true
		}
	}
	if hit {
		fmt.Printf("VIOLATION property=%s replay=%s\n", rf.Property, path)
		return 1
	}
	fmt.Printf("replay of %s: recorded violation %s does not occur on this tree (%d other findings)\n", path, rf.Sig, len(fs))
	return 0
}
