//go:build c17

// vsched is the C17 schedule explorer. It is compiled against the *instrumented* influxql package (go build
// -overlay), whose reads and writes report to the runtime in influxql/verifrt.
//
// For every scenario (2-3 thread bodies over independent inputs and/or one shared, pre-parsed AST):
//  1. each body runs solo: its result is the oracle ("the same call made alone");
//  2. all bodies run together under a cooperative scheduler (one goroutine runs at a time, control changes
//     hands only at scheduling points); every access is logged with the running thread and the locks it holds;
//  3. any two accesses of different threads that overlap in the pre-existing region (the shared AST and the
//     package-level variables with everything reachable from them), at least one a write, with no common lock,
//     are a data race - whatever the schedule, because the code under test contains no other synchronisation;
//  4. if some thread writes the pre-existing region or performs a synchronisation operation, schedules are
//     enumerated depth-first with an iterated preemption bound, scheduling points being the accesses to the
//     written objects and the synchronisation operations; otherwise all interleavings are equivalent to the
//     sequential ones (reads commute) and one schedule represents the class;
//  5. in every execution each result must equal its solo twin, nothing may panic, nothing may deadlock.
package main

import (
	"encoding/json"
	"fmt"
	"os"
	"reflect"
	"runtime"
	"runtime/debug"
	"sort"
	"strings"
	"time"
	"unsafe"

	"github.com/influxdata/influxql"
	"github.com/influxdata/influxql/verifrt"

	"verif/harness/astx"
	"verif/harness/c17b"
	"verif/harness/ev"
)

// ---- regions ---------------------------------------------------------------------------------------------------

type rng struct {
	lo, hi uintptr // [lo, hi)
	isMap  bool
	name   string
	id     int // stable across executions: globals by address order (fixed within the process), then the shared AST in traversal order
}

type region struct {
	r      []rng // byte ranges sorted by lo, then the map objects
	m      map[uintptr]int
	nbytes int
}

func (rg *region) add(lo, size uintptr, name string) {
	if size == 0 {
		return
	}
	rg.r = append(rg.r, rng{lo: lo, hi: lo + size, name: name})
}

func (rg *region) finish() {
	sort.Slice(rg.r, func(i, j int) bool { return rg.r[i].lo < rg.r[j].lo })
}

// find returns the index of a range overlapping [lo, lo+size) or -1.
func (rg *region) find(a verifrt.Access) int {
	if a.Map {
		if i, ok := rg.m[a.Addr]; ok {
			return i
		}
		return -1
	}
	lo, hi := a.Addr, a.Addr+a.Size
	i := sort.Search(len(rg.r), func(i int) bool { return rg.r[i].hi > lo })
	if i < len(rg.r) && rg.r[i].lo < hi {
		return i
	}
	return -1
}

// collect walks everything reachable from v and adds the memory of every object to the region.
func collect(rg *region, v reflect.Value, path string, seen map[uintptr]bool) {
	if !v.IsValid() {
		return
	}
	t := v.Type()
	switch t.String() {
	case "*regexp.Regexp", "*time.Location", "time.Time", "*strings.Replacer":
		// library objects: documented as safe for concurrent use, internals are not ours to judge (race pass)
		return
	}
	switch v.Kind() {
	case reflect.Ptr:
		if v.IsNil() {
			return
		}
		p := v.Pointer()
		if seen[p] && t.Elem().Size() > 0 {
			return
		}
		seen[p] = true
		rg.add(p, t.Elem().Size(), path)
		collect(rg, v.Elem(), path+".(*"+t.Elem().Name()+")", seen)
	case reflect.Interface:
		if !v.IsNil() {
			collect(rg, v.Elem(), path, seen)
		}
	case reflect.Struct:
		for i := 0; i < t.NumField(); i++ {
			f := v.Field(i)
			if t.Field(i).PkgPath != "" {
				if !f.CanAddr() {
					continue
				}
				f = reflect.NewAt(f.Type(), unsafe.Pointer(f.UnsafeAddr())).Elem()
			}
			collect(rg, f, path+"."+t.Field(i).Name, seen)
		}
	case reflect.Slice:
		if v.IsNil() {
			return
		}
		if v.Cap() > 0 {
			rg.add(v.Pointer(), uintptr(v.Cap())*t.Elem().Size(), path+"[]")
		}
		for i := 0; i < v.Len(); i++ {
			collect(rg, v.Index(i), fmt.Sprintf("%s[%d]", path, i), seen)
		}
	case reflect.Map:
		if v.IsNil() {
			return
		}
		p := v.Pointer()
		if seen[p] {
			return
		}
		seen[p] = true
		if rg.m == nil {
			rg.m = map[uintptr]int{}
		}
		rg.r = append(rg.r, rng{lo: p, hi: p + 1, isMap: true, name: path + "{}"})
		it := v.MapRange()
		for it.Next() {
			collect(rg, it.Value(), path+"{…}", seen)
		}
	case reflect.Array:
		for i := 0; i < v.Len(); i++ {
			collect(rg, v.Index(i), fmt.Sprintf("%s[%d]", path, i), seen)
		}
	}
}

var globalRanges []rng // collected once: the addresses of package-level state do not change within the process

func collectGlobals() []rng {
	rg := &region{m: map[uintptr]int{}}
	seen := map[uintptr]bool{}
	globals := influxql.VerifGlobals()
	names := make([]string, 0, len(globals))
	for n := range globals {
		names = append(names, n)
	}
	sort.Strings(names)
	for _, n := range names {
		pv := reflect.ValueOf(globals[n])
		rg.add(pv.Pointer(), pv.Type().Elem().Size(), "global "+n)
		collect(rg, pv.Elem(), "global "+n, seen)
	}
	out := rg.r
	// map iteration order made the collection order random: order by address, which is fixed
	sort.Slice(out, func(i, j int) bool {
		if out[i].lo != out[j].lo {
			return out[i].lo < out[j].lo
		}
		return out[i].hi < out[j].hi
	})
	for i := range out {
		out[i].id = i
	}
	return out
}

func buildRegion(shared []interface{}) *region {
	if globalRanges == nil {
		globalRanges = collectGlobals()
	}
	ast := &region{m: map[uintptr]int{}}
	seen := map[uintptr]bool{}
	for i, s := range shared {
		collect(ast, reflect.ValueOf(s), fmt.Sprintf("shared[%d]", i), seen)
	}
	for i := range ast.r {
		ast.r[i].id = len(globalRanges) + i // traversal order of the AST is deterministic (it contains no maps)
	}
	all := append(append([]rng{}, globalRanges...), ast.r...)
	rg := &region{m: map[uintptr]int{}}
	var maps []rng
	for _, x := range all {
		if x.isMap {
			maps = append(maps, x)
		} else {
			rg.r = append(rg.r, x)
		}
	}
	rg.finish()
	rg.nbytes = len(rg.r)
	for _, m := range maps {
		rg.m[m.lo] = len(rg.r)
		rg.r = append(rg.r, m)
	}
	return rg
}

// ---- threads and the cooperative scheduler --------------------------------------------------------------------------

type logged struct {
	a     verifrt.Access
	rix   int // region object index or -1
	locks []unsafe.Pointer
	vc    [4]int32 // vector clock of the accessing thread (happens-before through the sync shims)
	step  int
}

type thread struct {
	id      int
	body    *c17b.Body
	resume  chan struct{}
	done    bool
	started bool
	waitFor unsafe.Pointer // lock the thread is blocked on
	waitR   bool
	result  string
	panicV  interface{}
	log     []logged
	held    []unsafe.Pointer
	vc      [4]int32
	// afterSync: the previous hook call was a synchronisation operation whose effect (Pool.Put, atomic store…) takes
	// place after the hook returned; the next hook call of this thread first yields so that another thread can observe it.
	afterSync bool
}

type event struct {
	t    *thread
	kind int // 0 yield, 1 blocked, 2 done
}

type lockState struct {
	holder  *thread
	readers map[*thread]bool
}

type point struct {
	enabled []int
	chosen  int
	running int // id of the thread that was running before this point (-1 at start)
}

type execution struct {
	threads  []*thread
	cur      *thread
	events   chan event
	region   *region
	conflict map[int]bool // region objects whose accesses are scheduling points (nil: none)
	locks    map[unsafe.Pointer]*lockState
	points   []point
	prefix   []int
	syncOps  int
	steps    int
	deadlock bool
	diverged string
	logAll   bool                        // also log accesses outside the pre-existing region (needed once objects can be handed over through sync objects)
	objVC    map[unsafe.Pointer][4]int32 // clock released at each synchronisation object
}

var ex *execution // the running execution (one at a time)

func accessHook(a verifrt.Access) {
	e := ex
	t := e.cur
	if t.afterSync {
		t.afterSync = false
		e.yield(t)
	}
	rix := -1
	if a.Map {
		if i, ok := e.region.m[a.Addr]; ok {
			rix = i
		}
	} else {
		rix = e.region.findBytes(a)
	}
	if rix >= 0 || e.logAll {
		t.log = append(t.log, logged{a: a, rix: rix, locks: append([]unsafe.Pointer(nil), t.held...), vc: t.vc, step: e.steps})
		if rix >= 0 && e.conflict != nil && e.conflict[e.region.r[rix].id] {
			e.yield(t)
		}
	}
}

func join(a, b [4]int32) [4]int32 {
	for i := range a {
		if b[i] > a[i] {
			a[i] = b[i]
		}
	}
	return a
}

// acquire / release order the accesses of different threads through a synchronisation object.
func (e *execution) acquire(t *thread, obj unsafe.Pointer) { t.vc = join(t.vc, e.objVC[obj]) }
func (e *execution) release(t *thread, obj unsafe.Pointer) {
	e.objVC[obj] = join(e.objVC[obj], t.vc)
	t.vc[t.id]++
}

func (rg *region) findBytes(a verifrt.Access) int {
	lo, hi := a.Addr, a.Addr+a.Size
	n := rg.nbytes
	i := sort.Search(n, func(i int) bool { return rg.r[i].hi > lo })
	if i < n && rg.r[i].lo < hi {
		return i
	}
	return -1
}

func (e *execution) yield(t *thread) {
	e.events <- event{t, 0}
	<-t.resume
}

func syncHook(kind int, obj unsafe.Pointer) {
	e := ex
	t := e.cur
	e.syncOps++
	t.afterSync = false
	// every synchronisation operation is a scheduling point
	e.yield(t)
	switch kind {
	case verifrt.SyncLock, verifrt.SyncRLock:
		for {
			ls := e.locks[obj]
			if ls == nil {
				ls = &lockState{readers: map[*thread]bool{}}
				e.locks[obj] = ls
			}
			free := ls.holder == nil && (kind == verifrt.SyncRLock || len(ls.readers) == 0)
			if free {
				if kind == verifrt.SyncLock {
					ls.holder = t
				} else {
					ls.readers[t] = true
				}
				t.held = append(t.held, obj)
				e.acquire(t, obj)
				return
			}
			t.waitFor, t.waitR = obj, kind == verifrt.SyncRLock
			e.events <- event{t, 1}
			<-t.resume
			t.waitFor = nil
		}
	case verifrt.SyncUnlock, verifrt.SyncRUnlock:
		e.release(t, obj)
		if ls := e.locks[obj]; ls != nil {
			if kind == verifrt.SyncUnlock {
				ls.holder = nil
			} else {
				delete(ls.readers, t)
			}
		}
		for i := len(t.held) - 1; i >= 0; i-- {
			if t.held[i] == obj {
				t.held = append(t.held[:i], t.held[i+1:]...)
				break
			}
		}
		// the unlock has happened: another thread may take over right here
		e.yield(t)
	default:
		// atomics, Once, Pool, WaitGroup, sync.Map: the operation both acquires and releases on its object
		// (an over-approximation of happens-before: it can hide a race, never invent one). The shim performs the
		// operation right after this hook returns; the next scheduling point is the thread's next hook call, and a
		// second yield is placed after the operation by the caller-side hook below.
		e.acquire(t, obj)
		e.release(t, obj)
		t.afterSync = true
	}
}

func (e *execution) enabled() []int {
	var out []int
	for _, t := range e.threads {
		if t.done {
			continue
		}
		if t.waitFor != nil {
			ls := e.locks[t.waitFor]
			free := ls == nil || (ls.holder == nil && (t.waitR || len(ls.readers) == 0))
			if !free {
				continue
			}
		}
		out = append(out, t.id)
	}
	return out
}

// run executes all threads under the schedule prefix (then default choices) and returns.
func (e *execution) run() {
	if e.logAll {
		old := debug.SetGCPercent(-1)
		defer func() { debug.SetGCPercent(old); runtime.GC() }()
	}
	ex = e
	verifrt.Hook = accessHook
	verifrt.SyncHook = syncHook
	defer func() { verifrt.Hook, verifrt.SyncHook, ex = nil, nil, nil }()
	ready := make(chan struct{})
	for _, t := range e.threads {
		t := t
		go func() {
			// Grow this goroutine's stack once, before anything is logged: a stack that grows later is moved and its old
			// segment can be handed to another goroutine, which would make stack addresses of two threads coincide.
			growStack(768)
			ready <- struct{}{}
			<-t.resume
			func() {
				defer func() {
					if p := recover(); p != nil {
						t.panicV = fmt.Sprintf("%v\n%s", p, shortStack())
					}
				}()
				t.result = t.body.Run(t.body.Env)
			}()
			t.done = true
			e.events <- event{t, 2}
		}()
	}
	for range e.threads {
		<-ready
	}
	running := -1
	for {
		en := e.enabled()
		if len(en) == 0 {
			for _, t := range e.threads {
				if !t.done {
					e.deadlock = true
				}
			}
			return
		}
		// canonical order: the running thread first if still enabled, then ascending ids
		ordered := en
		for i, id := range en {
			if id == running {
				ordered = append([]int{id}, append(append([]int{}, en[:i]...), en[i+1:]...)...)
			}
		}
		choice := 0
		if k := len(e.points); k < len(e.prefix) {
			choice = e.prefix[k]
			if choice >= len(ordered) {
				e.diverged = fmt.Sprintf("replayed choice %d of %d at point %d", choice, len(ordered), k)
				choice = 0
			}
		}
		e.points = append(e.points, point{enabled: ordered, chosen: choice, running: running})
		t := e.threads[ordered[choice]]
		e.cur = t
		running = t.id
		e.steps++
		if e.steps > 200000 {
			e.diverged = "step budget exceeded (livelock?)"
			return
		}
		t.resume <- struct{}{}
		evn := <-e.events
		_ = evn
	}
}

//go:noinline
func growStack(n int) byte {
	var buf [1024]byte
	if n > 0 {
		buf[0] = growStack(n - 1)
	}
	return buf[n%1024]
}

func shortStack() string {
	lines := strings.Split(string(debug.Stack()), "\n")
	var keep []string
	for _, l := range lines {
		if strings.Contains(l, "influxql.") && !strings.Contains(l, "verifrt") && !strings.Contains(l, "harness") {
			keep = append(keep, strings.TrimSpace(l))
		}
		if len(keep) >= 4 {
			break
		}
	}
	return strings.Join(keep, " <- ")
}

// ---- scenarios ------------------------------------------------------------------------------------------------------------

type scenario struct {
	bodies []int
	shared int
}

func (s scenario) name(bs []*c17b.Body) string {
	var n []string
	for _, b := range s.bodies {
		n = append(n, bs[b].Name)
	}
	return fmt.Sprintf("%s || shared#%d", strings.Join(n, " ∥ "), s.shared)
}

type outcome struct {
	schedules   int
	outcomes    map[string]bool
	raced       []string // descriptions
	mismatches  []string
	panics      []string
	deadlocks   int
	conflicting int
	syncOps     int
	maxBound    int
	capped      bool
	points      int
}

var sites []struct {
	ID   int    `json:"id"`
	Pos  string `json:"pos"`
	Kind string `json:"kind"`
	Expr string `json:"expr"`
}

func siteName(id int32) string {
	if int(id) < len(sites) {
		s := sites[id]
		pos := s.Pos
		if i := strings.LastIndex(pos, "/"); i >= 0 {
			pos = pos[i+1:]
		}
		if j := strings.LastIndex(pos, ":"); j > 0 {
			pos = pos[:j]
		}
		return fmt.Sprintf("%s %s (%s)", s.Kind, s.Expr, pos)
	}
	return fmt.Sprint("site ", id)
}

func siteSig(id int32) string {
	if int(id) < len(sites) {
		return ev.SigSafe(sites[id].Kind + ":" + sites[id].Expr)
	}
	return fmt.Sprint(id)
}

// newExecution builds fresh state: a fresh parse of the shared statement, fresh threads.
func newExecution(sc scenario, bs []*c17b.Body, prefix []int, conflict map[int]bool) *execution {
	// Priming: whatever the library keeps between calls (a cache, a memo of the last value) must be in the same state at
	// the start of every execution of a scenario, or a recorded schedule prefix cannot be replayed. The state an
	// execution leaves depends on its schedule; so every execution is preceded by the same calls made one after the
	// other, outside the scheduler: each body of the scenario alone, in order.
	for _, bi := range sc.bodies {
		soloResult(bs[bi], sc.shared)
	}
	c17b.Reset()
	st, err := influxql.ParseStatement(c17b.SharedTexts[sc.shared])
	if err != nil {
		panic("shared text does not parse: " + err.Error())
	}
	e := &execution{events: make(chan event), locks: map[unsafe.Pointer]*lockState{}, prefix: prefix, conflict: conflict, objVC: map[unsafe.Pointer][4]int32{}}
	en := &c17b.Env{Shared: st, Sel: c17b.SelOf(st)}
	for i, bi := range sc.bodies {
		b := *bs[bi]
		b.Env = en
		th := &thread{id: i, body: &b, resume: make(chan struct{})}
		th.vc[i] = 1
		e.threads = append(e.threads, th)
	}
	e.region = buildRegion(append([]interface{}{st}, c17b.SchemaRoots()...))
	return e
}

func soloResult(b *c17b.Body, shared int) (res string, panicV interface{}) {
	c17b.Reset()
	st, _ := influxql.ParseStatement(c17b.SharedTexts[shared])
	en := &c17b.Env{Shared: st, Sel: c17b.SelOf(st)}
	defer func() {
		if p := recover(); p != nil {
			panicV = p
		}
	}()
	return b.Run(en), nil
}

func analyse(e *execution, o *outcome, sigs map[string]string) {
	// Data races: two accesses of different threads that overlap, at least one a write, neither ordered before the
	// other by happens-before (thread order plus the release/acquire edges of the sync shims). Without any
	// synchronisation operation no two accesses of different threads are ordered, so this degenerates to "some thread
	// writes what another thread touches".
	type acc struct {
		t int
		l *logged
	}
	cells := map[uintptr][]acc{}
	for _, t := range e.threads {
		for i := range t.log {
			l := &t.log[i]
			if l.a.Map {
				cells[l.a.Addr|1<<63] = append(cells[l.a.Addr|1<<63], acc{t.id, l})
				continue
			}
			for g := l.a.Addr &^ 7; g < l.a.Addr+l.a.Size; g += 8 {
				cells[g] = append(cells[g], acc{t.id, l})
				if l.a.Size > 4096 && g > l.a.Addr+4096 {
					break // very large ranges (whole backing arrays): the first granules identify the object
				}
			}
		}
	}
	hb := func(a, b acc) bool { return a.l.vc[a.t] <= b.l.vc[a.t] } // a happens before b
	for _, as := range cells {
		if len(as) < 2 {
			continue
		}
		for i := range as {
			if !as[i].l.a.Write {
				continue
			}
			for j := range as {
				if as[i].t == as[j].t || (j < i && as[j].l.a.Write) {
					continue
				}
				a, b := as[i], as[j]
				if !a.l.a.Map && !(a.l.a.Addr < b.l.a.Addr+b.l.a.Size && b.l.a.Addr < a.l.a.Addr+a.l.a.Size) {
					continue
				}
				if hb(a, b) || hb(b, a) {
					continue
				}
				sig := "data-race:" + siteSig(a.l.a.Site)
				if _, dup := sigs[sig]; !dup {
					where := "an object created during the run and handed over between threads"
					if a.l.rix >= 0 {
						where = e.region.r[a.l.rix].name
					}
					sigs[sig] = fmt.Sprintf("%s by %s races with %s by %s on %s", siteName(a.l.a.Site), e.threads[a.t].body.Name, siteName(b.l.a.Site), e.threads[b.t].body.Name, where)
				}
				o.raced = append(o.raced, sig)
			}
		}
	}
}

func runScenario(sc scenario, bs []*c17b.Body, maxBound int, deadline time.Time) (*outcome, map[string]string) {
	o := &outcome{outcomes: map[string]bool{}}
	sigs := map[string]string{}
	solo := make([]string, len(sc.bodies))
	for i, bi := range sc.bodies {
		r, p := soloResult(bs[bi], sc.shared)
		if p != nil {
			sigs["panic-solo:"+bs[bi].Name] = fmt.Sprint(p)
		}
		if w := bs[bi].Want; w != "" && p == nil && r != w {
			sig := "result-differs-from-the-documented-one:" + ev.SigSafe(bs[bi].Name)
			sigs[sig] = fmt.Sprintf("%s run alone (after other calls in this process) returns %q, the documented result is %q", bs[bi].Name, r, w)
			o.mismatches = append(o.mismatches, sig)
		}
		solo[i] = r
	}
	check := func(e *execution) {
		o.schedules++
		o.points += len(e.points)
		key := ""
		for i, t := range e.threads {
			key += fmt.Sprintf("%d:%x;", i, astx.HashString(t.result))
			if t.panicV != nil {
				sig := "panic:" + ev.SigSafe(t.body.Name)
				sigs[sig] = fmt.Sprintf("%s panicked under schedule %v: %v", t.body.Name, choices(e), t.panicV)
				o.panics = append(o.panics, sig)
			} else if t.done && t.result != solo[i] {
				sig := "result-differs-from-solo:" + ev.SigSafe(t.body.Name)
				if _, dup := sigs[sig]; !dup {
					sigs[sig] = fmt.Sprintf("%s returns a different result than the same call made alone, under schedule %v", t.body.Name, choices(e))
				}
				o.mismatches = append(o.mismatches, sig)
			}
		}
		if e.deadlock {
			sigs["deadlock"] = fmt.Sprintf("no thread can run under schedule %v", choices(e))
			o.deadlocks++
		}
		if e.diverged != "" {
			sigs["harness:divergence"] = e.diverged
		}
		o.outcomes[key] = true
		o.syncOps += e.syncOps
		analyse(e, o, sigs)
	}
	// first execution: default schedule, accesses to the pre-existing region logged, no scheduling points yet
	e0 := newExecution(sc, bs, nil, nil)
	e0.run()
	logAll := e0.syncOps > 0
	if logAll {
		// objects can change hands through synchronisation objects: log every access (garbage collection is held off
		// during an execution so that an address names one object)
		e0 = newExecution(sc, bs, nil, nil)
		e0.logAll = true
		e0.run()
	}
	check(e0)
	// objects of the pre-existing region that some thread writes: their accesses become scheduling points
	conflict := map[int]bool{}
	for _, t := range e0.threads {
		for _, l := range t.log {
			if l.a.Write && l.rix >= 0 {
				conflict[e0.region.r[l.rix].id] = true
			}
		}
	}
	o.conflicting = len(conflict)
	if len(conflict) == 0 && e0.syncOps == 0 {
		return o, sigs // all accesses to shared state are reads: every interleaving is equivalent to the sequential ones
	}
	// names are stable across executions because the region is built by a deterministic traversal
	var explore func(prefix []int, bound int)
	seenPrefix := map[string]bool{}
	explore = func(prefix []int, bound int) {
		if time.Now().After(deadline) || o.schedules > 20000 {
			o.capped = true
			return
		}
		e := newExecution(sc, bs, prefix, conflict)
		e.logAll = logAll
		e.run()
		check(e)
		for i := len(prefix); i < len(e.points); i++ {
			p := e.points[i]
			// preemptions used before point i
			cost := 0
			for k := 0; k < i; k++ {
				q := e.points[k]
				if q.chosen != 0 && q.running >= 0 && contains(q.enabled, q.running) {
					cost++
				}
			}
			for alt := 1; alt < len(p.enabled); alt++ {
				c := cost
				if p.running >= 0 && contains(p.enabled, p.running) {
					c++
				}
				if c > bound {
					continue
				}
				np := append(append([]int{}, choicesN(e, i)...), alt)
				k := fmt.Sprint(np)
				if seenPrefix[k] {
					continue
				}
				seenPrefix[k] = true
				explore(np, bound)
			}
		}
	}
	for b := 0; b <= maxBound; b++ {
		o.maxBound = b
		seenPrefixBefore := len(seenPrefix)
		_ = seenPrefixBefore
		explore(nil, b)
		if o.capped {
			break
		}
	}
	return o, sigs
}

func contains(a []int, x int) bool {
	for _, v := range a {
		if v == x {
			return true
		}
	}
	return false
}

func choices(e *execution) []int { return choicesN(e, len(e.points)) }
func choicesN(e *execution, n int) []int {
	out := make([]int, n)
	for i := 0; i < n; i++ {
		out[i] = e.points[i].chosen
	}
	return out
}

// goStatementsInLibrary counts the `go` statements the instrumenter saw in the package under test.
func goStatementsInLibrary(idir string) int {
	b, err := os.ReadFile(idir + "/report.json")
	if err != nil {
		return 0
	}
	var rep map[string]interface{}
	if json.Unmarshal(b, &rep) != nil {
		return 0
	}
	n, _ := rep["go_statements"].(float64)
	return int(n)
}

// ---- main ---------------------------------------------------------------------------------------------------------------------

func main() {
	if len(os.Args) < 3 {
		fmt.Println("usage: vsched quick|thorough <instrumentation dir>")
		os.Exit(2)
	}
	tier, idir := os.Args[1], os.Args[2]
	if os.Getenv("VERIF_SUPERVISED") == "" {
		// a thread that blocks inside the library on something the shims do not see (a channel nobody closes) leaves
		// the scheduler waiting for it: the Go runtime ends the process ("all goroutines are asleep"), and the parent
		// reports that as what it is
		os.Exit(ev.Supervise("C17", tier))
	}
	if b, err := os.ReadFile(idir + "/sites.json"); err == nil {
		json.Unmarshal(b, &sites)
	}
	var report map[string]interface{}
	if b, err := os.ReadFile(idir + "/report.json"); err == nil {
		json.Unmarshal(b, &report)
	}
	r := ev.NewRun("C17", tier, 0, 1)
	bs := c17b.Bodies()
	maxBound := 2
	deadline := time.Now().Add(4 * time.Minute)
	if tier == "thorough" {
		maxBound = 3
		deadline = time.Now().Add(20 * time.Minute)
	}
	// a violation is believed only if the same scenario reports the same signature again, twice
	r.ReplayFn = func(raw json.RawMessage) []ev.Finding {
		var cs struct {
			Bodies   []int `json:"bodies"`
			Shared   int   `json:"shared"`
			RacePass bool  `json:"race_pass"`
		}
		if json.Unmarshal(raw, &cs) != nil {
			return nil
		}
		var out []ev.Finding
		if cs.RacePass {
			if len(os.Args) > 3 {
				rp := parseRaceLog(os.Args[3])
				reports, _ := rp["reports"].([]map[string]string)
				for _, rep := range reports {
					out = append(out, ev.Finding{Sig: "race-detector:" + ev.SigSafe(rep["first_frame"])})
				}
			}
			return out
		}
		_, sigs := runScenario(scenario{bodies: cs.Bodies, shared: cs.Shared}, bs, maxBound, time.Now().Add(time.Minute))
		for sig := range sigs {
			out = append(out, ev.Finding{Sig: sig})
		}
		return out
	}
	if rp := os.Getenv("VSCHED_REPLAY"); rp != "" {
		os.Exit(replayScenario(rp, bs, maxBound, deadline))
	}
	// If the library starts goroutines of its own inside a call, those run outside the cooperative scheduler: the
	// exploration below cannot represent them (and their calls into the shims would bring the process down). The
	// free-running race-detector pass has already run the same bodies; when it reports races and the instrumenter saw
	// `go` statements in the library, those reports are the verdict and the exploration is skipped.
	if len(os.Args) > 3 && goStatementsInLibrary(idir) > 0 && os.Getenv("VSCHED_REPLAY") == "" {
		rp := parseRaceLog(os.Args[3])
		if reports, _ := rp["reports"].([]map[string]string); len(reports) > 0 {
			for _, rep := range reports {
				r.Report(ev.Finding{Sig: "race-detector:" + ev.SigSafe(rep["first_frame"]), Witness: "free-running -race pass", Detail: rep["text"], Case: map[string]interface{}{"race_pass": true}, Rank: 1})
			}
			r.Exhaustive = false
			r.Set("race_pass", rp)
			r.Set("exploration_skipped", "the library starts goroutines inside calls; schedules of those are not explored, the race detector's reports stand")
			os.Exit(r.Finish())
		}
	}
	var claimed, controls []int
	for i, b := range bs {
		if b.Control {
			controls = append(controls, i)
		} else {
			claimed = append(claimed, i)
		}
	}
	var scen []scenario
	// all ordered pairs (incl. A ∥ A) of claimed bodies x shared statements; pairs of independent bodies need one shared statement only
	for _, a := range claimed {
		for _, b := range claimed {
			nsh := 1
			if bs[a].Shared || bs[b].Shared {
				nsh = len(c17b.SharedTexts)
			}
			for sh := 0; sh < nsh; sh++ {
				scen = append(scen, scenario{bodies: []int{a, b}, shared: sh})
			}
		}
	}
	if tier == "thorough" {
		for _, a := range claimed {
			for _, b := range claimed {
				for _, c := range claimed {
					if a <= b && b <= c && (bs[a].Shared || bs[b].Shared || bs[c].Shared) {
						for sh := 0; sh < 2; sh++ {
							scen = append(scen, scenario{bodies: []int{a, b, c}, shared: sh})
						}
					}
				}
			}
		}
	}
	totalSched, totalConf, totalSync := 0, 0, 0
	// Iterated context bounding across scenarios: first every scenario with at most one preemption (a body next to a
	// copy of itself first: state that independent calls share without wanting to shows there), then the full bound
	// for the scenarios in which something is shared (a written object of the pre-existing region, a synchronisation
	// operation) and nothing was found yet. One scenario with thousands of scheduling points cannot starve the rest.
	type scenRes struct {
		o    *outcome
		sigs map[string]string
	}
	results := make([]scenRes, len(scen))
	var order []int
	for i, sc := range scen {
		if len(sc.bodies) == 2 && sc.bodies[0] == sc.bodies[1] {
			order = append(order, i)
		}
	}
	for i, sc := range scen {
		if !(len(sc.bodies) == 2 && sc.bodies[0] == sc.bodies[1]) {
			order = append(order, i)
		}
	}
	b1 := maxBound
	if b1 > 1 {
		b1 = 1
	}
	for _, i := range order {
		o, sigs := runScenario(scen[i], bs, b1, deadline)
		results[i] = scenRes{o, sigs}
	}
	if maxBound > b1 {
		for _, i := range order {
			if o := results[i].o; (o.conflicting > 0 || o.syncOps > 0) && len(results[i].sigs) == 0 && !time.Now().After(deadline) {
				o2, sigs2 := runScenario(scen[i], bs, maxBound, deadline)
				o2.schedules += o.schedules
				results[i] = scenRes{o2, sigs2}
			}
		}
	}
	for i, sc := range scen {
		o, sigs := results[i].o, results[i].sigs
		n := r.Eval()
		r.Trans(int64(o.points + o.schedules))
		r.State(astx.HashString(sc.name(bs)), true)
		totalSched += o.schedules
		totalConf += o.conflicting
		totalSync += o.syncOps
		if o.capped {
			r.Exhaustive = false
		}
		r.Sample(n, func() interface{} {
			return map[string]interface{}{"scenario": sc.name(bs), "schedules": o.schedules, "conflicting_objects": o.conflicting, "distinct_outcomes": len(o.outcomes)}
		})
		for sig, detail := range sigs {
			code := 0
			if strings.HasPrefix(sig, "harness:") {
				fmt.Println("HARNESS-ERROR:", detail, "in", sc.name(bs))
				os.Exit(2)
			}
			_ = code
			r.Report(ev.Finding{Sig: sig, Witness: sc.name(bs), Detail: detail, Case: map[string]interface{}{"bodies": sc.bodies, "shared": sc.shared}, Rank: len(sc.bodies)})
		}
	}
	// controls: scenarios that must conflict; a control that is not flagged means the harness is blind
	var ctlReport []interface{}
	for _, c := range controls {
		partner := c
		if bs[c].Name == "control:RewriteTimeFields" {
			partner = indexOf(bs, "String")
		}
		if bs[c].Name == "control:RewriteRegexConditions" {
			partner = indexOf(bs, "Clone")
		}
		sh := 1 // a SELECT with GROUP BY time(…) whose interval memo is not yet set (parsing a CQ sets it)
		if bs[c].Name == "control:RewriteTimeFields" {
			sh = 2
		}
		if bs[c].Name == "control:RewriteRegexConditions" {
			sh = 1
		}
		sc := scenario{bodies: []int{c, partner}, shared: sh}
		o, sigs := runScenario(sc, bs, maxBound, deadline)
		raced := false
		for s := range sigs {
			if strings.HasPrefix(s, "data-race:") {
				raced = true
			}
		}
		ctlReport = append(ctlReport, map[string]interface{}{"scenario": sc.name(bs), "flagged_as_race": raced, "schedules": o.schedules, "distinct_outcomes": len(o.outcomes), "conflicting_objects": o.conflicting, "preemption_bound_completed": o.maxBound})
		r.Trans(int64(o.points + o.schedules))
		totalSched += o.schedules
		if !raced {
			fmt.Printf("HARNESS-ERROR: control scenario %s was not flagged as a data race: the instrumentation or the analysis is blind\n", sc.name(bs))
			os.Exit(2)
		}
	}
	// the separate free-running race-detector pass (plain -race build of the same bodies)
	if len(os.Args) > 3 {
		rp := parseRaceLog(os.Args[3])
		r.Set("race_pass", rp)
		if reports, _ := rp["reports"].([]map[string]string); len(reports) > 0 {
			for _, rep := range reports {
				r.Report(ev.Finding{Sig: "race-detector:" + ev.SigSafe(rep["first_frame"]), Witness: "free-running -race pass", Detail: rep["text"], Case: map[string]interface{}{"race_pass": true}, Rank: 1})
			}
		}
		if rp["ok"] != true {
			fmt.Println("HARNESS-ERROR: the race-detector pass did not complete:", rp["error"])
			os.Exit(2)
		}
	}
	r.Set("controls", ctlReport)
	r.Set("scenarios", len(scen))
	r.Set("thread_bodies_claimed", len(claimed))
	r.Set("shared_statements", len(c17b.SharedTexts))
	r.Set("schedules_executed", totalSched)
	r.Set("conflicting_objects_in_claimed_scenarios", totalConf)
	r.Set("sync_operations_in_claimed_scenarios", totalSync)
	r.Set("equivalence", "a claimed scenario with no write to the pre-existing region and no synchronisation operation has one Mazurkiewicz class: one schedule executed represents all interleavings")
	r.Set("preemption_bound", maxBound)
	r.Set("instrumentation", report)
	r.Rule = fmt.Sprintf("scenarios = every ordered pair (incl. A ∥ A) of %d claimed thread bodies (parse/print/quote/format/sanitize/lookup on independent inputs; String, Clone, Walk, Reduce, RewriteFields, ColumnNames, privileges, Eval*, ConditionExpr, names on a shared pre-parsed AST) x %d shared statements (thorough: also triples); decided by write footprints against the pre-existing region, lockset race analysis of the logged accesses, and preemption-bounded DFS over scheduling points (accesses to written shared objects, sync/atomic shim operations) with the solo-twin result oracle; 3 control scenarios that must be flagged", len(claimed), len(c17b.SharedTexts))
	r.Assumptions = []string{"sequentially consistent interleavings at source-level access points; accesses inside the standard library (regexp, strings.Replacer, sort) are left to the separate free-running -race pass", "the shared set is the one the property names; GroupByInterval (memo) is outside it and used as a control"}
	code := r.Finish()
	os.Exit(code)
}

// parseRaceLog reads the stderr/stdout of vrace: the summary line and any "WARNING: DATA RACE" blocks.
func parseRaceLog(path string) map[string]interface{} {
	out := map[string]interface{}{"ok": false}
	b, err := os.ReadFile(path)
	if err != nil {
		out["error"] = err.Error()
		return out
	}
	text := string(b)
	var reports []map[string]string
	blocks := strings.Split(text, "WARNING: DATA RACE")
	for _, blk := range blocks[1:] {
		if i := strings.Index(blk, "=================="); i > 0 {
			blk = blk[:i]
		}
		first := ""
		for _, l := range strings.Split(blk, "\n") {
			l = strings.TrimSpace(l)
			if strings.HasPrefix(l, "github.com/influxdata/influxql.") && first == "" {
				first = strings.TrimSuffix(strings.TrimPrefix(l, "github.com/influxdata/influxql."), "()")
			}
		}
		if len(blk) > 1500 {
			blk = blk[:1500]
		}
		reports = append(reports, map[string]string{"first_frame": first, "text": "WARNING: DATA RACE" + blk})
	}
	out["reports"] = reports
	out["report_count"] = len(reports)
	for _, l := range strings.Split(text, "\n") {
		if strings.HasPrefix(l, "vrace: ") {
			out["summary"] = strings.TrimPrefix(l, "vrace: ")
			out["ok"] = true
		}
	}
	if out["ok"] != true {
		out["error"] = "no summary line in " + path
	}
	return out
}

// replayScenario re-runs exactly the scenario recorded in a replay file (no other scenario is explored).
func replayScenario(path string, bs []*c17b.Body, maxBound int, deadline time.Time) int {
	b, err := os.ReadFile(path)
	if err != nil {
		fmt.Println("HARNESS-ERROR:", err)
		return 2
	}
	var rf ev.ReplayFile
	var cs struct {
		Bodies   []int `json:"bodies"`
		Shared   int   `json:"shared"`
		RacePass bool  `json:"race_pass"`
	}
	if json.Unmarshal(b, &rf) != nil || json.Unmarshal(rf.Case, &cs) != nil {
		fmt.Println("HARNESS-ERROR: cannot read", path)
		return 2
	}
	hit := false
	if cs.RacePass {
		if len(os.Args) > 3 {
			rp := parseRaceLog(os.Args[3])
			reports, _ := rp["reports"].([]map[string]string)
			for _, rep := range reports {
				sig := "race-detector:" + ev.SigSafe(rep["first_frame"])
				fmt.Printf("replayed: sig=%s\n", sig)
				if sig == rf.Sig {
					hit = true
				}
			}
		}
	} else {
		sc := scenario{bodies: cs.Bodies, shared: cs.Shared}
		o, sigs := runScenario(sc, bs, maxBound, deadline)
		fmt.Printf("replayed scenario %s: schedules=%d distinct_outcomes=%d conflicting_objects=%d\n", sc.name(bs), o.schedules, len(o.outcomes), o.conflicting)
		for sig, d := range sigs {
			fmt.Printf("replayed: sig=%s :: %s\n", sig, d)
			if sig == rf.Sig {
				hit = true
			}
		}
	}
	if hit {
		fmt.Printf("VIOLATION property=C17 replay=%s\n", path)
		return 1
	}
	fmt.Printf("replay of %s: recorded violation %s does not occur on this tree\n", path, rf.Sig)
	return 0
}

func indexOf(bs []*c17b.Body, name string) int {
	for i, b := range bs {
		if b.Name == name {
			return i
		}
	}
	panic("no body " + name)
}
