package gram

import (
	"strconv"
	"strings"

	"github.com/influxdata/influxql"
)

// ---- operators ---------------------------------------------------------------------------------------

type Op struct {
	Text  string
	Tok   influxql.Token
	Level int
	Regex bool
	Word  bool
}

var Ops = []Op{
	{"=", influxql.EQ, 3, false, false}, {"!=", influxql.NEQ, 3, false, false}, {"<>", influxql.NEQ, 3, false, false}, {"<", influxql.LT, 3, false, false},
	{"<=", influxql.LTE, 3, false, false}, {">", influxql.GT, 3, false, false}, {">=", influxql.GTE, 3, false, false},
	{"=~", influxql.EQREGEX, 3, true, false}, {"!~", influxql.NEQREGEX, 3, true, false},
	{"AND", influxql.AND, 2, false, true}, {"OR", influxql.OR, 1, false, true},
	{"+", influxql.ADD, 4, false, false}, {"-", influxql.SUB, 4, false, false}, {"|", influxql.BITWISE_OR, 4, false, false}, {"^", influxql.BITWISE_XOR, 4, false, false},
	{"*", influxql.MUL, 5, false, false}, {"/", influxql.DIV, 5, false, false}, {"%", influxql.MOD, 5, false, false}, {"&", influxql.BITWISE_AND, 5, false, false},
}

const firstArithOp = 11

type chainItem struct {
	op *Op
	e  influxql.Expr
}

// climb builds the tree the chain denotes: five levels, left associative.
func climb(items []chainItem, pos *int, minLevel int) influxql.Expr {
	lhs := items[*pos].e
	*pos++
	for *pos < len(items) && items[*pos].op != nil && items[*pos].op.Level >= minLevel {
		o := items[*pos].op
		*pos++
		rhs := climb(items, pos, o.Level+1)
		lhs = &influxql.BinaryExpr{Op: o.Tok, LHS: lhs, RHS: rhs}
	}
	return lhs
}

// ExprCtx says where an expression stands.
type ExprCtx struct {
	Cond     bool // comparison and logical operators allowed (WHERE); otherwise arithmetic only
	Arg      bool // call argument: wildcard and regex allowed as a whole operand
	NoCalls  bool // function calls not allowed (raw continuous query)
	Role     string
	maxChain int
}

// Expr generates `unary { op unary }`.
func (g *G) Expr(cx ExprCtx) influxql.Expr {
	items := []chainItem{{e: g.unary(cx)}}
	for len(items) < 7 && g.opt() {
		var o *Op
		if cx.Cond {
			o = &Ops[g.pick(len(Ops))]
		} else {
			o = &Ops[firstArithOp+g.pick(len(Ops)-firstArithOp)]
		}
		if o.Word {
			g.kw(o.Text)
		} else {
			g.p(o.Text)
		}
		items = append(items, chainItem{op: o})
		if o.Regex {
			items = append(items, chainItem{e: g.regex(cx.Role + ".regex")})
		} else {
			items = append(items, chainItem{e: g.unary(cx)})
		}
	}
	pos := 0
	return climb(items, &pos, 1)
}

var intSpellings = []string{"1", "0", "10", "9223372036854775807", "9223372036854775808", "18446744073709551615", "010", "08"}
var numSpellings = []string{"1.5", ".5", "1.", "0.0", "100000000000000000000.0", "0.0000001", "010.50"}
var castTypes = []struct {
	text string
	kw   bool
	t    influxql.DataType
}{{"float", false, influxql.Float}, {"integer", false, influxql.Integer}, {"unsigned", false, influxql.Unsigned}, {"string", false, influxql.String},
	{"boolean", false, influxql.Boolean}, {"FIELD", true, influxql.AnyField}, {"TAG", true, influxql.Tag}}

// (the last two can only be written quoted: any identifier directly in front of a parenthesis names a function)
var funcNames = []string{"mean", "count", "max", "top", "derivative", "percentile", "now", "my_func", "my func", "select"}

func intLit(text string, neg bool) influxql.Expr {
	if v, err := strconv.ParseInt(text, 10, 64); err == nil {
		if neg {
			v = -v
		}
		return &influxql.IntegerLiteral{Val: v}
	}
	u, err := strconv.ParseUint(text, 10, 64)
	if err != nil {
		panic("gram: integer spelling out of range: " + text)
	}
	if neg {
		if u == 1<<63 {
			return &influxql.IntegerLiteral{Val: -1 << 63}
		}
		return nil // "-<big>" underflows: a deliberate rejection, not generated
	}
	return &influxql.UnsignedLiteral{Val: u}
}

// varref emits ident[.ident][::type]
func (g *G) varref(cx ExprCtx, form int) influxql.Expr {
	name := g.ident(cx.Role+".ref", "a")
	if form == 1 { // two segments
		g.Glue()
		g.p(".")
		g.Glue()
		name += "." + g.ident(cx.Role+".ref2", "f2")
	}
	v := &influxql.VarRef{Val: name}
	if form == 2 {
		ct := castTypes[g.pick(len(castTypes))]
		g.Glue()
		g.p("::")
		g.Glue()
		if ct.kw {
			g.kw(ct.text)
		} else {
			g.emit(Tok{K: TYPENAME, Text: ct.text})
		}
		v.Type = ct.t
	}
	return v
}

func (g *G) call(cx ExprCtx) influxql.Expr {
	name := funcNames[g.pick(len(funcNames))]
	if influxql.IdentNeedsQuotes(name) {
		g.emit(Tok{K: IDENT, Text: name, Role: cx.Role + ".func"})
	} else {
		g.emit(Tok{K: FUNC, Text: name, Role: cx.Role + ".func"})
	}
	g.Glue()
	g.p("(")
	c := &influxql.Call{Name: name}
	n := 0
	for n < 3 && g.opt() {
		if n > 0 {
			g.p(",")
		}
		acx := ExprCtx{Arg: true, Role: cx.Role + ".arg", NoCalls: cx.NoCalls}
		c.Args = append(c.Args, g.argument(acx))
		n++
	}
	g.p(")")
	return c
}

// argument: expression, wildcard or regex.
func (g *G) argument(cx ExprCtx) influxql.Expr {
	switch g.C.Choose(4) {
	case 1:
		return g.wildcard()
	case 2:
		return g.regex(cx.Role + ".regex")
	case 3:
		g.kw("DISTINCT")
		return &influxql.Distinct{Val: g.ident(cx.Role+".distinct", "d")}
	}
	return g.Expr(ExprCtx{Role: cx.Role, NoCalls: cx.NoCalls})
}

func (g *G) wildcard() influxql.Expr {
	g.p("*")
	w := &influxql.Wildcard{}
	switch g.pick(3) {
	case 1:
		g.Glue()
		g.p("::")
		g.Glue()
		g.kw("FIELD")
		w.Type = influxql.FIELD
	case 2:
		g.Glue()
		g.p("::")
		g.Glue()
		g.kw("TAG")
		w.Type = influxql.TAG
	}
	return w
}

// unary generates one operand.
func (g *G) unary(cx ExprCtx) influxql.Expr {
	n := 13
	switch g.C.Choose(n) {
	case 1:
		return &influxql.StringLiteral{Val: g.str(cx.Role+".str", "x")}
	case 2:
		return intLit(g.value(INT, cx.Role+".int", intSpellings[g.pick(len(intSpellings))]), false)
	case 3:
		t := g.value(NUM, cx.Role+".num", numSpellings[g.pick(len(numSpellings))])
		f, err := strconv.ParseFloat(t, 64)
		if err != nil {
			panic(err)
		}
		return &influxql.NumberLiteral{Val: f}
	case 4:
		return &influxql.DurationLiteral{Val: g.dur(cx.Role+".dur", "1h")}
	case 5:
		if g.pick(2) == 1 {
			g.kw("FALSE")
			return &influxql.BooleanLiteral{Val: false}
		}
		g.kw("TRUE")
		return &influxql.BooleanLiteral{Val: true}
	case 6:
		if cx.NoCalls {
			return g.varref(cx, 0)
		}
		return g.call(cx)
	case 7:
		g.p("(")
		e := g.Expr(cx)
		g.p(")")
		return &influxql.ParenExpr{Expr: e}
	case 8: // signed literal
		sign := g.pick(2) // 0 "-", 1 "+"
		neg := sign == 0
		if neg {
			g.p("-")
		} else {
			g.p("+")
		}
		switch g.pick(3) {
		case 1:
			t := g.value(NUM, cx.Role+".num", numSpellings[g.pick(len(numSpellings))])
			f, _ := strconv.ParseFloat(t, 64)
			if neg {
				f = -f
			}
			return &influxql.NumberLiteral{Val: f}
		case 2:
			d := g.dur(cx.Role+".dur", "1h")
			if neg {
				d = -d
			}
			return &influxql.DurationLiteral{Val: d}
		}
		sp := []string{"1", "0", "9223372036854775807", "9223372036854775808"}
		t := g.value(INT, cx.Role+".int", sp[g.pick(len(sp))])
		e := intLit(t, neg)
		if !neg {
			if _, isU := e.(*influxql.UnsignedLiteral); isU {
				return e
			}
		}
		return e
	case 9: // signed reference / call / group: desugars to ±1 * x
		mul := int64(-1)
		if g.pick(2) == 1 {
			mul = 1
			g.p("+")
		} else {
			g.p("-")
		}
		var x influxql.Expr
		switch k := g.pick(3); {
		case k == 1 && !cx.NoCalls:
			x = g.call(cx)
		case k == 2:
			g.p("(")
			e := g.Expr(cx)
			g.p(")")
			x = &influxql.ParenExpr{Expr: e}
		default:
			x = g.varref(cx, 0)
		}
		return &influxql.BinaryExpr{Op: influxql.MUL, LHS: &influxql.IntegerLiteral{Val: mul}, RHS: x}
	case 10:
		return g.varref(cx, 1)
	case 11:
		return g.varref(cx, 2)
	case 12:
		if cx.Arg {
			return g.varref(cx, 0)
		}
		// DISTINCT(x) call form
		if cx.NoCalls {
			return g.varref(cx, 0)
		}
		g.kw("DISTINCT")
		g.Glue()
		g.p("(")
		a := g.Expr(ExprCtx{Role: cx.Role + ".arg"})
		g.p(")")
		return &influxql.Call{Name: "distinct", Args: []influxql.Expr{a}}
	}
	return g.varref(cx, 0)
}

// HasCall reports whether the expression contains a function call.
func HasCall(n influxql.Node) bool {
	found := false
	influxql.WalkFunc(n, func(x influxql.Node) {
		if _, ok := x.(*influxql.Call); ok {
			found = true
		}
	})
	return found
}

func lower(s string) string { return strings.ToLower(s) }
