// Package xplore is a stateless, deviation-bounded, exhaustive explorer of choice trees.
//
// A body is a deterministic function that asks for every decision through the Ctx. Choice 0 is
// the default (simplest) alternative. A costed choice that is answered with a non-zero value
// consumes one unit of the budget of its class; Free choices cost nothing and are always fully
// enumerated. Explore runs the body once per distinct choice vector whose per-class cost is
// within the bounds: run(prefix) replays the prefix and answers 0 afterwards; every point after
// the prefix then spawns one child per non-zero alternative that still fits the budget. Every
// execution is a distinct leaf, so nothing is executed twice and nothing inside the bound is
// skipped.
package xplore

import (
	"fmt"
	"runtime/debug"
	"sync"
	"sync/atomic"
	"time"
)

// Beats counts executions of all explorers of the process (a liveness signal for a watchdog).
var Beats int64

// Free is the class of uncosted choices.
const Free = -1

type point struct {
	n      int32
	choice int32
	class  int8
}

// Ctx carries one execution.
type Ctx struct {
	prefix []int32
	trail  []point
	// Scratch is free for the body's use (per execution).
	Scratch interface{}
}

// ErrDiverged is the panic value raised when a replayed prefix meets a different arity.
type ErrDiverged struct{ Msg string }

func (c *Ctx) choose(class int8, n int) int {
	if n <= 0 {
		panic(ErrDiverged{fmt.Sprintf("choice with arity %d at point %d", n, len(c.trail))})
	}
	i := len(c.trail)
	ch := int32(0)
	if i < len(c.prefix) {
		ch = c.prefix[i]
		if int(ch) >= n {
			panic(ErrDiverged{fmt.Sprintf("replayed choice %d out of range %d at point %d", ch, n, i)})
		}
	}
	c.trail = append(c.trail, point{int32(n), ch, class})
	return int(ch)
}

// Choose asks for one of n alternatives in cost class 0.
func (c *Ctx) Choose(n int) int { return c.choose(0, n) }

// ChooseC asks for one of n alternatives in the given cost class (>= 0).
func (c *Ctx) ChooseC(class int, n int) int { return c.choose(int8(class), n) }

// Free asks for one of n alternatives at no cost.
func (c *Ctx) Free(n int) int { return c.choose(Free, n) }

// Bool is Choose(2) == 1.
func (c *Ctx) Bool() bool { return c.choose(0, 2) == 1 }

// Vector returns the choice vector of this execution so far.
func (c *Ctx) Vector() []int {
	v := make([]int, len(c.trail))
	for i, p := range c.trail {
		v[i] = int(p.choice)
	}
	return v
}

// Cost returns the number of costed deviations taken so far in the class.
func (c *Ctx) Cost(class int) int {
	k := 0
	for _, p := range c.trail {
		if int(p.class) == class && p.choice != 0 {
			k++
		}
	}
	return k
}

// TotalCost is the number of costed deviations over all classes.
func (c *Ctx) TotalCost() int {
	k := 0
	for _, p := range c.trail {
		if p.class >= 0 && p.choice != 0 {
			k++
		}
	}
	return k
}

// Explorer configures one exhaustive exploration.
type Explorer struct {
	Bounds   []int        // budget per cost class
	Body     func(c *Ctx) // generates one case and checks it; must be deterministic in the choices
	Workers  int          // goroutines (default 1)
	Deadline time.Time    // zero: none. When passed, exploration stops and Capped is set.
	MaxExecs int64        // zero: none

	Execs       int64 // executions (= leaves = distinct choice vectors)
	Transitions int64 // edges of the choice tree traversed (sum of trail lengths beyond the replayed prefix)
	ByCost      [16]int64
	Capped      bool
	MaxDepth    int64

	tasks   chan []int32
	pending int64
	capped  atomic.Bool
	panicV  atomic.Value
}

// Replay runs the body once on exactly this vector (no search) and returns the context.
func Replay(body func(c *Ctx), vector []int) *Ctx {
	p := make([]int32, len(vector))
	for i, v := range vector {
		p[i] = int32(v)
	}
	c := &Ctx{prefix: p}
	body(c)
	if len(c.trail) < len(p) {
		panic(ErrDiverged{fmt.Sprintf("replay consumed %d of %d choices", len(c.trail), len(p))})
	}
	return c
}

// Run explores the whole tree within the bounds.
func (e *Explorer) Run() {
	if e.Workers <= 0 {
		e.Workers = 1
	}
	e.tasks = make(chan []int32, 8192)
	e.pending = 1
	e.tasks <- nil
	var wg sync.WaitGroup
	for w := 0; w < e.Workers; w++ {
		wg.Add(1)
		go func() {
			defer wg.Done()
			defer func() {
				if r := recover(); r != nil {
					e.panicV.Store(fmt.Sprintf("%v\n%s", r, debug.Stack()))
					e.capped.Store(true)
					// drain so that the other workers terminate
					for range e.tasks {
						if atomic.AddInt64(&e.pending, -1) == 0 {
							close(e.tasks)
						}
					}
				}
			}()
			for p := range e.tasks {
				e.explore(p)
				if atomic.AddInt64(&e.pending, -1) == 0 {
					close(e.tasks)
				}
			}
		}()
	}
	wg.Wait()
	e.Capped = e.capped.Load()
	if v := e.panicV.Load(); v != nil {
		panic(fmt.Sprintf("xplore: explorer failed: %v", v))
	}
}

func (e *Explorer) explore(prefix []int32) {
	if e.capped.Load() {
		return
	}
	n := atomic.AddInt64(&e.Execs, 1)
	atomic.AddInt64(&Beats, 1)
	if (e.MaxExecs > 0 && n > e.MaxExecs) || (n&1023 == 0 && !e.Deadline.IsZero() && time.Now().After(e.Deadline)) {
		e.capped.Store(true)
		return
	}
	c := &Ctx{prefix: prefix}
	e.Body(c)
	if len(c.trail) < len(prefix) {
		panic(ErrDiverged{fmt.Sprintf("body consumed %d of %d replayed choices", len(c.trail), len(prefix))})
	}
	atomic.AddInt64(&e.Transitions, int64(len(c.trail)-len(prefix))+1)
	for {
		d := atomic.LoadInt64(&e.MaxDepth)
		if int64(len(c.trail)) <= d || atomic.CompareAndSwapInt64(&e.MaxDepth, d, int64(len(c.trail))) {
			break
		}
	}
	// cost of the replayed prefix per class
	var cost [8]int
	total := 0
	for i := 0; i < len(prefix); i++ {
		p := c.trail[i]
		if p.class >= 0 && p.choice != 0 {
			cost[p.class]++
			total++
		}
	}
	if total < len(e.ByCost) {
		atomic.AddInt64(&e.ByCost[total], 1)
	}
	trail := c.trail
	for i := len(prefix); i < len(trail); i++ {
		p := trail[i]
		if p.n > 1 {
			ok := true
			if p.class >= 0 {
				if int(p.class) >= len(e.Bounds) || cost[p.class]+1 > e.Bounds[p.class] {
					ok = false
				}
			}
			if ok {
				for alt := int32(1); alt < p.n; alt++ {
					child := make([]int32, i+1)
					for k := 0; k < i; k++ {
						child[k] = trail[k].choice
					}
					child[i] = alt
					e.dispatch(child)
				}
			}
		}
		// trail[i].choice is 0 here (beyond the prefix), so it adds no cost.
	}
}

func (e *Explorer) dispatch(child []int32) {
	if e.Workers > 1 && len(e.tasks) < cap(e.tasks)/2 {
		atomic.AddInt64(&e.pending, 1)
		select {
		case e.tasks <- child:
			return
		default:
			atomic.AddInt64(&e.pending, -1)
		}
	}
	e.explore(child)
}
