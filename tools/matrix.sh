#!/bin/sh
# usage: matrix.sh <lane dir> <out.csv> <seed dir>...
# Runs every quick check against every given seeded change in a private copy of /verif and /repo (so that several
# lanes can run side by side and /repo itself is never touched). One CSV line per (seed, check): rc, violations, first sig.
export GOFLAGS=-mod=mod GOPROXY=off GOSUMDB=off GOTOOLCHAIN=local
LANE=$1; OUT=$2; shift 2
rm -rf "$LANE"; mkdir -p "$LANE"
git clone -q /repo "$LANE/repo" || exit 2
mkdir -p "$LANE/verif"
(cd /verif && tar -cf - --exclude=.git --exclude=.build --exclude=replays --exclude=seeded .) | tar -xf - -C "$LANE/verif"
sed -i "s|=> /repo|=> $LANE/repo|" "$LANE/verif/harness/go.mod"
sed -i "s|/repo|$LANE/repo|g" "$LANE/verif/check"
for S in "$@"; do
  name=$(basename "$(dirname "$S")")-$(basename "$S")
  git -C "$LANE/repo" checkout -q -- . ; git -C "$LANE/repo" clean -fdq
  if ! git -C "$LANE/repo" apply "$S/patch.diff" 2>/dev/null; then echo "$name,ALL,patch-does-not-apply,," >> "$OUT"; continue; fi
  for C in C01 C02 C03 C04 C05 C06 C07 C08 C09 C10 C11 C12 C13 C14 C15 C16 C17 C18 C19 C20; do
    (cd "$LANE/verif" && ./check $C quick > "$LANE/log.txt" 2>&1); rc=$?
    nv=$(grep -c '^VIOLATION' "$LANE/log.txt")
    sig=$(grep -A1 '^VIOLATION' "$LANE/log.txt" | grep 'sig=' | head -1 | sed 's/^ *sig=//; s/ cases=.*//' | tr ',' ';' | cut -c1-120)
    he=$(grep -c '^HARNESS-ERROR' "$LANE/log.txt")
    echo "$name,$C,$rc,$nv,$he,$sig" >> "$OUT"
    if [ "$rc" -ge 2 ]; then mkdir -p "$LANE/errors"; cp "$LANE/log.txt" "$LANE/errors/$name.$C.log"; fi
  done
done
git -C "$LANE/repo" checkout -q -- .
echo "lane $LANE done" >> "$OUT.done"
