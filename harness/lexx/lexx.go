// Package lexx is the lexeme-sequence explorer: the alphabet of lexeme spellings and the reference model of
// rune folding and positions that lexer-level checks are decided against.
package lexx

import (
	"unicode/utf8"
)

// Sigma is the full alphabet: every case of Scanner.Scan, scanIdent, scanString, scanNumber, the comment
// skippers, ScanRegex / ScanDelimited and every CR/LF/EOF branch of reader.read has a trigger, and adjacent
// spellings fuse into other tokens (1 . 5, - -, / *, = ~, < >, : :, $ ").
var Sigma = []string{
	// identifiers and keywords
	"a", "SELECT", "from", "_x1",
	// quoted identifiers
	`"q i"`, `"unterminated`, `"bad\escape"`, `"esc\"aped"`,
	// strings
	`'s'`, `'unterminated`, `'bad\q'`, `'it\'s'`, "'new\nline'", `''`,
	// numbers and durations
	"1", "1.5", ".5", "1.", "1h", "1µ", "1e", "99999999999999999999",
	// operators and punctuation
	"+", "-", "*", "/", "%", "&", "|", "^", "=", "!=", "<>", "<", "<=", ">", ">=", "=~", "!~", "!", "(", ")", ",", ";", ":", "::", ".", "~",
	// placeholders
	"$", "$x", `$"x y"`, "$1",
	// whitespace
	" ", "\t", "\n", "\r", "\r\n",
	// comments
	"--c\n", "--c", "/*c*/", "/*c", "/**/", "/***/",
	// regex bodies (after a '/' the parser may scan a regex)
	"/a/", `/a\/b/`, "/a", "/(/",
	// odd bytes
	"#", "é", "👍", "\x00", "\xff", `\`,
	// one representative per Unicode class that a predicate written for ASCII may get wrong: the empty quoted
	// identifier, other digits, a non-ASCII decimal digit, a fullwidth digit, a superscript, the two letters that
	// lower-case to ASCII, a line separator and a byte-order mark
	`""`, "9", "x9", "0", "\u0663", "\uff11", "\u00b2", "\u212a", "\u0130", "\u2028", "\ufeff",
	// characters some editors count as line breaks, inside a string: U+2029, U+0085, form feed, vertical tab
	"'x\u2029y'", "'x\u0085\f\vy'", "\ufffd",
}

// Core is the subset used by quick tiers (one trigger per branch, fewer near-duplicates).
var Core = []string{
	"a", "SELECT", `"q i"`, `"unterminated`, `"bad\escape"`,
	`'s'`, `'unterminated`, `'bad\q'`, "'new\nline'",
	"1", "1.5", ".5", "1h", "1µ",
	"+", "-", "*", "/", "=", "!=", "<", ">", "=~", "!", "(", ")", ",", ";", ":", "::", ".",
	"$", "$x",
	" ", "\n", "\r", "\r\n",
	"--c\n", "--c", "/*c*/", "/*c",
	"/a/", "/a",
	"#", "é", "\x00", "\xff", `\`,
	`""`, "$1", "9", "\u0663", "\u212a", "\ufeff",
	"\u2028", "'x\u2029y'",
}

// Separators used when joining lexemes so that line/column arithmetic crosses them.
var Separators = []string{" ", "\n", "\r\n", "\r", "é ", " /*\n*/ "}

// Pos is a zero-based line and column.
type Pos struct{ Line, Char int }

// Model is the reference reading of a text: the folded rune sequence (CRLF and lone CR become LF, every
// invalid byte becomes U+FFFD) and the position of every rune offset (offset len(Runes) = end of input).
type Model struct {
	Runes []rune
	At    []Pos // len(Runes)+1 entries
}

// NewModel folds a text.
func NewModel(s string) *Model {
	m := &Model{}
	b := []byte(s)
	for i := 0; i < len(b); {
		r, n := utf8.DecodeRune(b[i:])
		i += n
		if r == '\r' {
			if i < len(b) && b[i] == '\n' {
				i++
			}
			r = '\n'
		}
		m.Runes = append(m.Runes, r)
	}
	p := Pos{}
	for _, r := range m.Runes {
		m.At = append(m.At, p)
		if r == '\n' {
			p.Line++
			p.Char = 0
		} else {
			p.Char++
		}
	}
	m.At = append(m.At, p)
	return m
}

// Seqs enumerates every concatenation of at most k spellings of the alphabet (index vectors).
func Count(n, k int) int {
	total, p := 0, 1
	for l := 0; l <= k; l++ {
		total += p
		p *= n
	}
	return total
}

// Decode turns an index into the vector of spelling indices (shorter sequences first).
func Decode(idx, n int) []int {
	l, base, p := 0, 0, 1
	for idx >= base+p {
		base += p
		p *= n
		l++
	}
	x := idx - base
	v := make([]int, l)
	for i := 0; i < l; i++ {
		v[i] = x % n
		x /= n
	}
	return v
}
