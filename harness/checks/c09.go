package checks

import (
	"encoding/json"
	"fmt"
	"math"
	"strings"
	"time"
	_ "time/tzdata"

	"github.com/influxdata/influxql"

	"verif/harness/astx"
	"verif/harness/ev"
)

// C09 — constant folding never changes the value of an expression.
//
// Reduce and Eval are two implementations of the same semantics inside the package; every
// well-typed tree up to depth 2 over boundary values, with every leaf a literal, a variable bound
// at Reduce time or a variable bound only at Eval time, is run through both.

const (
	kI = iota
	kU
	kF
	kB
	kS
)

var c09kindName = []string{"int", "unsigned", "float", "bool", "string"}

type c09op struct {
	tok  influxql.Token
	text string
	cls  int // 0 logic, 1 arith, 2 bitwise, 3 ordering, 4 equality
}

var c09ops = []c09op{
	{influxql.AND, "AND", 0}, {influxql.OR, "OR", 0},
	{influxql.ADD, "+", 1}, {influxql.SUB, "-", 1}, {influxql.MUL, "*", 1}, {influxql.DIV, "/", 1}, {influxql.MOD, "%", 1},
	{influxql.BITWISE_AND, "&", 2}, {influxql.BITWISE_OR, "|", 2}, {influxql.BITWISE_XOR, "^", 2},
	{influxql.LT, "<", 3}, {influxql.LTE, "<=", 3}, {influxql.GT, ">", 3}, {influxql.GTE, ">=", 3},
	{influxql.EQ, "=", 4}, {influxql.NEQ, "!=", 4},
}

// c09type gives the result kind of `l op r`, or -1 if ill-typed by the property's rule:
// boolean operators on booleans, arithmetic, bitwise and ordering operators on numbers, equality on like kinds.
func c09type(op c09op, l, r int) int {
	num := func(k int) bool { return k == kI || k == kU || k == kF }
	switch op.cls {
	case 0:
		if l == kB && r == kB {
			return kB
		}
	case 1:
		if num(l) && num(r) {
			if l == kF || r == kF {
				return kF
			}
			if l == kU || r == kU {
				return kU
			}
			if op.tok == influxql.DIV {
				return kF // integer division is float division
			}
			return kI
		}
	case 2:
		if l == kB && r == kB {
			return kB
		}
		if (l == kI || l == kU) && (r == kI || r == kU) {
			if l == kU || r == kU {
				return kU
			}
			return kI
		}
	case 3:
		if num(l) && num(r) {
			return kB
		}
	case 4:
		if (num(l) && num(r)) || (l == r) {
			return kB
		}
	}
	return -1
}

type c09leaf struct {
	Kind int `json:"kind"`
	Val  int `json:"val"`  // index into the kind's value table
	Mode int `json:"mode"` // 0 literal, 1 variable bound at Reduce time, 2 variable bound only at Eval time
}

var (
	c09I = []int64{7, math.MaxInt64, -1, 0, math.MinInt64, 1}
	c09U = []uint64{1 << 63, 7, 0, math.MaxUint64, 1}
	c09F = []float64{1.5, 0, -2.5, 7, 1e19, math.NaN(), math.Inf(1)}
	c09B = []bool{true, false}
	// (the last three look like dates: two are not valid timestamps, one is)
	c09S = []string{"a", "b", "", "2024-01-01-backup", "2024-02-30 00:00:00", "2024-01-01 00:00:00"}
)

func (l c09leaf) value() interface{} {
	switch l.Kind {
	case kI:
		return c09I[l.Val]
	case kU:
		return c09U[l.Val]
	case kF:
		return c09F[l.Val]
	case kB:
		return c09B[l.Val]
	}
	return c09S[l.Val]
}

func (l c09leaf) literal() influxql.Expr {
	switch v := l.value().(type) {
	case int64:
		return &influxql.IntegerLiteral{Val: v}
	case uint64:
		return &influxql.UnsignedLiteral{Val: v}
	case float64:
		return &influxql.NumberLiteral{Val: v}
	case bool:
		return &influxql.BooleanLiteral{Val: v}
	case string:
		return &influxql.StringLiteral{Val: v}
	}
	return nil
}

// c09Case: Shape 0 leaf; 1 `a op b` (6: in parentheses, 7: in double parentheses, 8: double parentheses as left operand); 2 `(a op0 b) op1 c` as a bare left tree; 3 `a op0 (b op1 c)` as a bare right
// tree; 4 and 5 the same two with an explicit ParenExpr around the inner node. Time>0 selects a time-arithmetic case.
type c09Case struct {
	Shape  int       `json:"shape"`
	Ops    []int     `json:"ops"`
	Leaves []c09leaf `json:"leaves"`
	Time   *c09Time  `json:"time,omitempty"`
	Tree   *c09tnode `json:"tree,omitempty"` // nested time arithmetic
	Zone   int       `json:"zone,omitempty"`
	Names  int       `json:"names,omitempty"` // 1: the variables are called time, Time, TIME instead of v0, v1, v2
}

var c09timeNames = []string{"time", "Time", "TIME"}

func (c c09Case) build() (e influxql.Expr, r1, all map[string]interface{}) {
	r1, all = map[string]interface{}{}, map[string]interface{}{}
	leaf := func(i int) influxql.Expr {
		l := c.Leaves[i]
		if l.Mode == 0 {
			return l.literal()
		}
		name := fmt.Sprintf("v%d", i)
		if c.Names == 1 {
			name = c09timeNames[i%3]
		}
		all[name] = l.value()
		if l.Mode == 1 {
			r1[name] = l.value()
		}
		return &influxql.VarRef{Val: name}
	}
	bin := func(op int, l, r influxql.Expr) influxql.Expr {
		return &influxql.BinaryExpr{Op: c09ops[op].tok, LHS: l, RHS: r}
	}
	switch c.Shape {
	case 0:
		e = leaf(0)
	case 1:
		e = bin(c.Ops[0], leaf(0), leaf(1))
	case 2:
		e = bin(c.Ops[1], bin(c.Ops[0], leaf(0), leaf(1)), leaf(2))
	case 3:
		e = bin(c.Ops[0], leaf(0), bin(c.Ops[1], leaf(1), leaf(2)))
	case 4:
		e = bin(c.Ops[1], &influxql.ParenExpr{Expr: bin(c.Ops[0], leaf(0), leaf(1))}, leaf(2))
	case 5:
		e = bin(c.Ops[0], leaf(0), &influxql.ParenExpr{Expr: bin(c.Ops[1], leaf(1), leaf(2))})
	case 6: // (a op b)
		e = &influxql.ParenExpr{Expr: bin(c.Ops[0], leaf(0), leaf(1))}
	case 7: // ((a op b))
		e = &influxql.ParenExpr{Expr: &influxql.ParenExpr{Expr: bin(c.Ops[0], leaf(0), leaf(1))}}
	case 8: // ((a op0 b)) op1 c
		e = bin(c.Ops[1], &influxql.ParenExpr{Expr: &influxql.ParenExpr{Expr: bin(c.Ops[0], leaf(0), leaf(1))}}, leaf(2))
	}
	return
}

// wellTyped applies the property's typing rule.
func (c c09Case) wellTyped() bool {
	k := func(i int) int { return c.Leaves[i].Kind }
	switch c.Shape {
	case 0:
		return true
	case 1, 6, 7:
		return c09type(c09ops[c.Ops[0]], k(0), k(1)) >= 0
	case 2, 4, 8:
		t := c09type(c09ops[c.Ops[0]], k(0), k(1))
		return t >= 0 && c09type(c09ops[c.Ops[1]], t, k(2)) >= 0
	case 3, 5:
		t := c09type(c09ops[c.Ops[1]], k(1), k(2))
		return t >= 0 && c09type(c09ops[c.Ops[0]], k(0), t) >= 0
	}
	return false
}

func sameValue(a, b interface{}) bool {
	if fa, ok := a.(float64); ok {
		fb, ok := b.(float64)
		return ok && (fa == fb || (math.IsNaN(fa) && math.IsNaN(fb)))
	}
	return a == b
}

func c09sigOf(c c09Case) string {
	// operator classes and operand kinds/modes: narrow enough to separate causes, stable across values
	var b strings.Builder
	fmt.Fprintf(&b, "shape%d", c.Shape)
	for _, o := range c.Ops {
		b.WriteString("," + c09ops[o].text)
	}
	for _, l := range c.Leaves {
		fmt.Fprintf(&b, ",%s/%d", c09kindName[l.Kind], l.Mode)
	}
	return b.String()
}

func c09eval(c c09Case) []ev.Finding {
	if c.Time != nil {
		return c09evalTime(c)
	}
	if c.Tree != nil {
		return c09evalTree(c)
	}
	e, r1, all := c.build()
	text := e.String()
	wit := fmt.Sprintf("%s  reduce-time=%v all=%v", text, r1, all)
	var red, red2 influxql.Expr
	var v1, v2 interface{}
	if p, st := try(func() {
		red = influxql.Reduce(e, influxql.MapValuer(r1))
		red2 = influxql.Reduce(red, influxql.MapValuer(r1))
		// the reduced form is evaluated under the remaining bindings only: what was given to Reduce is in it
		rest := map[string]interface{}{}
		for k, v := range all {
			if _, given := r1[k]; !given {
				rest[k] = v
			}
		}
		ve := influxql.ValuerEval{Valuer: influxql.MapValuer(all), IntegerFloatDivision: true}
		vr := influxql.ValuerEval{Valuer: influxql.MapValuer(rest), IntegerFloatDivision: true}
		v1 = vr.Eval(red)
		v2 = ve.Eval(e)
	}); p != nil {
		return []ev.Finding{{Sig: "panic:" + ev.SigSafe(fmt.Sprint(p)), Witness: wit, Detail: fmt.Sprint(p) + "\n" + st, Case: c, Rank: c.Shape}}
	}
	var out []ev.Finding
	// the expression that was handed to Reduce is still the caller's expression: under another assignment it must be
	// worth what a freshly built copy is worth (a Reduce that writes bound values into its argument fails here)
	if len(all) > 0 {
		alt := map[string]interface{}{}
		for i, l := range c.Leaves {
			if l.Mode == 0 {
				continue
			}
			l2 := l
			switch l.Kind {
			case kI:
				l2.Val = (l.Val + 1) % len(c09I)
			case kU:
				l2.Val = (l.Val + 1) % len(c09U)
			case kF:
				l2.Val = (l.Val + 1) % 5 // stay clear of NaN, which is never equal to itself
			case kB:
				l2.Val = (l.Val + 1) % len(c09B)
			default:
				l2.Val = (l.Val + 1) % len(c09S)
			}
			alt[fmt.Sprintf("v%d", i)] = l2.value()
		}
		fresh, _, _ := c.build()
		var va, vb interface{}
		if p, _ := try(func() {
			ve := influxql.ValuerEval{Valuer: influxql.MapValuer(alt), IntegerFloatDivision: true}
			va, vb = ve.Eval(e), ve.Eval(fresh)
		}); p == nil && !sameValue(va, vb) {
			out = append(out, ev.Finding{Sig: "reduce-changes-its-argument:" + c09sigOf(c), Witness: wit,
				Detail: fmt.Sprintf("after Reduce(e, %v) the expression e is worth %T(%v) under %v; a fresh copy is worth %T(%v): e is now %s", r1, va, va, alt, vb, vb, e), Case: c, Rank: c.Shape})
		}
	}
	if !sameValue(v1, v2) {
		// cause class: an unsigned variable bound at Reduce time?
		sig := "value-differs:" + c09sigOf(c)
		for _, l := range c.Leaves {
			if l.Kind == kU && l.Mode == 1 {
				sig = "value-differs:unsigned-variable-bound-at-reduce-time"
			}
		}
		out = append(out, ev.Finding{Sig: sig, Witness: wit,
			Detail: fmt.Sprintf("Eval(Reduce(e,r1), the remaining bindings) = %T(%v) but Eval(e, all) = %T(%v); reduced form %s", v1, v1, v2, v2, red), Case: c, Rank: c.Shape*10 + len(r1)})
	}
	// the evaluation rules the property names: integer division is float division, division and modulo by zero are zero
	if (c.Shape == 1 || c.Shape == 6 || c.Shape == 7) && len(c.Leaves) == 2 {
		op := c09ops[c.Ops[0]].tok
		l, r := c.Leaves[0].value(), c.Leaves[1].value()
		isZero := func(v interface{}) bool {
			switch x := v.(type) {
			case int64:
				return x == 0
			case uint64:
				return x == 0
			case float64:
				return x == 0
			}
			return false
		}
		numeric := func(v interface{}) bool {
			switch v.(type) {
			case int64, uint64, float64:
				return true
			}
			return false
		}
		if (op == influxql.DIV || op == influxql.MOD) && numeric(l) && numeric(r) && isZero(r) {
			for _, v := range []interface{}{v2, v1} {
				if !isZero(v) {
					kind := "integer"
					if _, lf := l.(float64); lf {
						kind = "float"
					} else if _, rf := r.(float64); rf {
						kind = "float"
					}
					out = append(out, ev.Finding{Sig: fmt.Sprintf("by-zero-not-zero:%s:%s", c09ops[c.Ops[0]].text, kind), Witness: wit,
						Detail: fmt.Sprintf("%s evaluates to %T(%v); division and modulo by zero are zero", text, v, v), Case: c, Rank: c.Shape})
					break
				}
			}
		}
		if li, ok := l.(int64); ok && op == influxql.DIV {
			if ri, ok := r.(int64); ok && ri != 0 {
				if want := float64(li) / float64(ri); !sameValue(v2, want) {
					out = append(out, ev.Finding{Sig: "integer-division-is-not-float-division", Witness: wit, Detail: fmt.Sprintf("%s evaluates to %T(%v), want float64(%v)", text, v2, v2, want), Case: c, Rank: c.Shape})
				}
			}
		}
	}
	if path, a, b := astx.Diff(astx.Full, red, red2); path != "" {
		out = append(out, ev.Finding{Sig: "not-idempotent:" + c09sigOf(c), Witness: wit,
			Detail: fmt.Sprintf("Reduce twice differs from once at %s: %s vs %s", path, a, b), Case: c, Rank: c.Shape})
	}
	return out
}

// ---- time arithmetic -------------------------------------------------------------------------

type c09Time struct {
	Form int `json:"form"` // 0 T+d, 1 d+T, 2 T-d, 3 T1-T2, 4.. T1 cmp T2
	T1   int `json:"t1"`
	T2   int `json:"t2"`
	D    int `json:"d"`
	Zone int `json:"zone"`
}

type c09instant struct {
	text                   string // "" = now()
	y, mo, d, h, mi, s, ns int
	off                    int  // seconds east, when fixed by the spelling
	fixed                  bool // the spelling carries its own offset
}

var c09instants = []c09instant{
	{"2000-01-01T00:00:00Z", 2000, 1, 1, 0, 0, 0, 0, 0, true},
	{"2000-01-01T02:00:00+02:00", 2000, 1, 1, 2, 0, 0, 0, 7200, true},
	{"2015-07-04T12:34:56.123456789Z", 2015, 7, 4, 12, 34, 56, 123456789, 0, true},
	{"2000-01-01", 2000, 1, 1, 0, 0, 0, 0, 0, false},
	{"1999-12-31 23:59:59", 1999, 12, 31, 23, 59, 59, 0, 0, false},
	{"2020-02-29 12:00:00.5", 2020, 2, 29, 12, 0, 0, 500000000, 0, false},
	{"", 0, 0, 0, 0, 0, 0, 0, 0, true}, // now()
	// equally long spellings whose text order is not their time order
	{"2000-01-01T00:00:00+01:00", 2000, 1, 1, 0, 0, 0, 0, 3600, true},
	{"2000-01-01T00:30:00+02:00", 2000, 1, 1, 0, 30, 0, 0, 7200, true},
	{"1999-12-31T23:00:00-05:00", 1999, 12, 31, 23, 0, 0, 0, -18000, true},
	{"2000-01-01 00:00:00.95", 2000, 1, 1, 0, 0, 0, 950000000, 0, false},
	{"2000-01-01T00:00:00.5Z", 2000, 1, 1, 0, 0, 0, 500000000, 0, true},
	// instants whose distance from 1970 does not fit 64-bit nanoseconds: still instants, still ordered (comparisons only)
	{"2300-01-01T00:00:00Z", 2300, 1, 1, 0, 0, 0, 0, 0, true},
	{"1600-01-01T00:00:00Z", 1600, 1, 1, 0, 0, 0, 0, 0, true},
	{"2262-04-12T00:00:00Z", 2262, 4, 12, 0, 0, 0, 0, 0, true},
	// the day before, and the day after, a daylight-saving transition of the last zone
	{"2024-03-09 12:00:00", 2024, 3, 9, 12, 0, 0, 0, 0, false},
	{"2024-11-04 00:30:00", 2024, 11, 4, 0, 30, 0, 0, 0, false},
}

func (t c09instant) far() bool {
	return t.y > 2262 || t.y < 1678 || (t.y == 2262 && t.mo >= 4 && t.d >= 12)
}

func (t c09instant) tm(zone *time.Location) time.Time {
	if t.text == "" {
		return c09now
	}
	loc := zone
	if loc == nil {
		loc = time.UTC
	}
	if t.fixed {
		loc = time.FixedZone("", t.off)
	}
	return time.Date(t.y, time.Month(t.mo), t.d, t.h, t.mi, t.s, t.ns, loc)
}

var c09now = time.Date(2010, 6, 15, 10, 30, 0, 7, time.UTC)
var c09durs = []time.Duration{time.Hour, 0, 1, -90 * time.Minute, 400 * 24 * time.Hour, 24 * time.Hour, -7 * 24 * time.Hour, 100 * 24 * time.Hour}

// (the last zone has daylight-saving transitions: a day there is not always 24 hours, a duration always is)
var c09zones = []*time.Location{nil, time.FixedZone("X", 5*3600+1800), time.FixedZone("Y", -8*3600), c09dstZone()}

func c09dstZone() *time.Location {
	l, err := time.LoadLocation("America/Los_Angeles") // from the embedded time/tzdata
	if err != nil {
		panic("c09: no zone database: " + err.Error())
	}
	return l
}

var c09cmp = []influxql.Token{influxql.EQ, influxql.NEQ, influxql.LT, influxql.LTE, influxql.GT, influxql.GTE}

func (t c09instant) expr() influxql.Expr {
	if t.text == "" {
		return &influxql.Call{Name: "now"}
	}
	return &influxql.StringLiteral{Val: t.text}
}

func (t c09instant) nanos(zone *time.Location) int64 {
	if t.text == "" {
		return c09now.UnixNano()
	}
	loc := zone
	if loc == nil {
		loc = time.UTC
	}
	if t.fixed {
		loc = time.FixedZone("", t.off)
	}
	return time.Date(t.y, time.Month(t.mo), t.d, t.h, t.mi, t.s, t.ns, loc).UnixNano()
}

func c09evalTime(c c09Case) []ev.Finding {
	tc := c.Time
	zone := c09zones[tc.Zone]
	t1, t2, d := c09instants[tc.T1], c09instants[tc.T2], c09durs[tc.D]
	var e influxql.Expr
	var want string
	n1, n2 := t1.nanos(zone), t2.nanos(zone)
	if tc.Form < 4 && (t1.far() || (tc.Form == 3 && t2.far())) {
		return nil // sums and differences of such instants have no 64-bit nanosecond value
	}
	switch {
	case tc.Form == 0:
		e = &influxql.BinaryExpr{Op: influxql.ADD, LHS: t1.expr(), RHS: &influxql.DurationLiteral{Val: d}}
		want = fmt.Sprintf("time:%d", n1+int64(d))
	case tc.Form == 1:
		e = &influxql.BinaryExpr{Op: influxql.ADD, LHS: &influxql.DurationLiteral{Val: d}, RHS: t1.expr()}
		want = fmt.Sprintf("time:%d", n1+int64(d))
	case tc.Form == 2:
		e = &influxql.BinaryExpr{Op: influxql.SUB, LHS: t1.expr(), RHS: &influxql.DurationLiteral{Val: d}}
		want = fmt.Sprintf("time:%d", n1-int64(d))
	case tc.Form == 3:
		e = &influxql.BinaryExpr{Op: influxql.SUB, LHS: t1.expr(), RHS: t2.expr()}
		want = fmt.Sprintf("duration:%d", n1-n2)
	default:
		op := c09cmp[tc.Form-4]
		e = &influxql.BinaryExpr{Op: op, LHS: t1.expr(), RHS: t2.expr()}
		var b bool
		a1, a2 := t1.tm(zone), t2.tm(zone) // compared as instants, not as nanosecond counts (which wrap far from 1970)
		switch op {
		case influxql.EQ:
			b = a1.Equal(a2)
		case influxql.NEQ:
			b = !a1.Equal(a2)
		case influxql.LT:
			b = a1.Before(a2)
		case influxql.LTE:
			b = !a1.After(a2)
		case influxql.GT:
			b = a1.After(a2)
		case influxql.GTE:
			b = !a1.Before(a2)
		}
		want = fmt.Sprintf("bool:%v", b)
	}
	zn := "UTC(nil)"
	if zone != nil {
		zn = zone.String()
	}
	wit := fmt.Sprintf("%s  [zone %s, now=%s]", e.String(), zn, c09now.Format(time.RFC3339Nano))
	var red, red2 influxql.Expr
	valuer := &influxql.NowValuer{Now: c09now, Location: zone}
	if p, st := try(func() {
		red = influxql.Reduce(e, valuer)
		red2 = influxql.Reduce(red, valuer)
	}); p != nil {
		return []ev.Finding{{Sig: "panic-time:" + ev.SigSafe(fmt.Sprint(p)), Witness: wit, Detail: fmt.Sprint(p) + "\n" + st, Case: c}}
	}
	got := "unreduced:" + red.String()
	switch r := red.(type) {
	case *influxql.TimeLiteral:
		got = fmt.Sprintf("time:%d", r.Val.UnixNano())
	case *influxql.DurationLiteral:
		got = fmt.Sprintf("duration:%d", int64(r.Val))
	case *influxql.BooleanLiteral:
		got = fmt.Sprintf("bool:%v", r.Val)
	}
	var out []ev.Finding
	if got != want {
		out = append(out, ev.Finding{Sig: fmt.Sprintf("time-fold:form%d:%s", tc.Form, strings.SplitN(got, ":", 2)[0]), Witness: wit,
			Detail: fmt.Sprintf("Reduce gives %s, exact arithmetic gives %s", got, want), Case: c})
	}
	if !astx.Equal(astx.Full, red, red2) {
		out = append(out, ev.Finding{Sig: fmt.Sprintf("time-not-idempotent:form%d", tc.Form), Witness: wit, Detail: fmt.Sprintf("%s then %s", red, red2), Case: c})
	}
	return out
}

// ---- nested time arithmetic ------------------------------------------------------------------
//
// Trees of depth <= 2 over instants (T), durations (D) and small integers (K) with the typing
//   T+D, D+T, T-D -> T;  T-T -> D;  D+D, D-D -> D;  D*K, K*D, D/K -> D (K = 0: zero);  T cmp T, D cmp D -> bool
// and exact int64 nanosecond arithmetic as the reference. A tree without * and / must fold completely; with them
// Reduce may leave a node alone, but whatever it folds must be exact.

type c09tnode struct {
	Leaf  string    `json:"leaf,omitempty"` // "T", "D", "K"
	Idx   int       `json:"idx,omitempty"`
	Op    int       `json:"op,omitempty"` // index into c09tops
	L, R  *c09tnode `json:",omitempty"`
	Paren bool      `json:"paren,omitempty"`
}

var c09tops = []influxql.Token{influxql.ADD, influxql.SUB, influxql.MUL, influxql.DIV, influxql.EQ, influxql.NEQ, influxql.LT, influxql.LTE, influxql.GT, influxql.GTE}
var c09tT = []int{0, 3, 5, 6} // indices into c09instants: fixed offset, zone-dependent date, zone-dependent fractional, now()
var c09tD = []time.Duration{time.Hour, -90 * time.Minute, 1}
var c09tK = []int64{2, 0, -3}

type c09tval struct {
	kind byte // 'T', 'D', 'K', 'B'
	n    int64
	b    bool
}

func (n *c09tnode) hasMulDiv() bool {
	if n.Leaf != "" {
		return false
	}
	return n.Op == 2 || n.Op == 3 || n.L.hasMulDiv() || n.R.hasMulDiv()
}

func (n *c09tnode) expr() influxql.Expr {
	var e influxql.Expr
	switch n.Leaf {
	case "T":
		e = c09instants[c09tT[n.Idx]].expr()
	case "D":
		e = &influxql.DurationLiteral{Val: c09tD[n.Idx]}
	case "K":
		e = &influxql.IntegerLiteral{Val: c09tK[n.Idx]}
	default:
		e = &influxql.BinaryExpr{Op: c09tops[n.Op], LHS: n.L.expr(), RHS: n.R.expr()}
	}
	if n.Paren {
		e = &influxql.ParenExpr{Expr: e}
	}
	return e
}

// eval is the exact reference; ok=false means ill-typed under the rule above.
func (n *c09tnode) eval(zone *time.Location) (c09tval, bool) {
	switch n.Leaf {
	case "T":
		return c09tval{kind: 'T', n: c09instants[c09tT[n.Idx]].nanos(zone)}, true
	case "D":
		return c09tval{kind: 'D', n: int64(c09tD[n.Idx])}, true
	case "K":
		return c09tval{kind: 'K', n: c09tK[n.Idx]}, true
	}
	l, ok := n.L.eval(zone)
	if !ok {
		return c09tval{}, false
	}
	r, ok := n.R.eval(zone)
	if !ok {
		return c09tval{}, false
	}
	op := c09tops[n.Op]
	switch {
	case op == influxql.ADD && l.kind == 'T' && r.kind == 'D', op == influxql.ADD && l.kind == 'D' && r.kind == 'T':
		return c09tval{kind: 'T', n: l.n + r.n}, true
	case op == influxql.SUB && l.kind == 'T' && r.kind == 'D':
		return c09tval{kind: 'T', n: l.n - r.n}, true
	case op == influxql.SUB && l.kind == 'T' && r.kind == 'T':
		return c09tval{kind: 'D', n: l.n - r.n}, true
	case op == influxql.ADD && l.kind == 'D' && r.kind == 'D':
		return c09tval{kind: 'D', n: l.n + r.n}, true
	case op == influxql.SUB && l.kind == 'D' && r.kind == 'D':
		return c09tval{kind: 'D', n: l.n - r.n}, true
	case op == influxql.MUL && ((l.kind == 'D' && r.kind == 'K') || (l.kind == 'K' && r.kind == 'D')):
		return c09tval{kind: 'D', n: l.n * r.n}, true
	case op == influxql.DIV && l.kind == 'D' && r.kind == 'K':
		if r.n == 0 {
			return c09tval{kind: 'D'}, true
		}
		return c09tval{kind: 'D', n: l.n / r.n}, true
	case n.Op >= 4 && l.kind == r.kind && (l.kind == 'T' || l.kind == 'D'):
		var b bool
		switch op {
		case influxql.EQ:
			b = l.n == r.n
		case influxql.NEQ:
			b = l.n != r.n
		case influxql.LT:
			b = l.n < r.n
		case influxql.LTE:
			b = l.n <= r.n
		case influxql.GT:
			b = l.n > r.n
		case influxql.GTE:
			b = l.n >= r.n
		}
		return c09tval{kind: 'B', b: b}, true
	}
	return c09tval{}, false
}

func (v c09tval) String() string {
	switch v.kind {
	case 'T':
		return fmt.Sprintf("time:%d", v.n)
	case 'D':
		return fmt.Sprintf("duration:%d", v.n)
	case 'B':
		return fmt.Sprintf("bool:%v", v.b)
	}
	return fmt.Sprintf("int:%d", v.n)
}

func c09evalTree(c c09Case) []ev.Finding {
	zone := c09zones[c.Zone]
	want, ok := c.Tree.eval(zone)
	if !ok {
		return nil
	}
	e := c.Tree.expr()
	zn := "UTC(nil)"
	if zone != nil {
		zn = zone.String()
	}
	wit := fmt.Sprintf("%s  [zone %s, now=%s]", e.String(), zn, c09now.Format(time.RFC3339Nano))
	var red, red2 influxql.Expr
	valuer := &influxql.NowValuer{Now: c09now, Location: zone}
	if p, st := try(func() {
		red = influxql.Reduce(e, valuer)
		red2 = influxql.Reduce(red, valuer)
	}); p != nil {
		return []ev.Finding{{Sig: "panic-time:" + ev.SigSafe(fmt.Sprint(p)), Witness: wit, Detail: fmt.Sprint(p) + "\n" + st, Case: c}}
	}
	got := "unreduced:" + red.String()
	switch r := red.(type) {
	case *influxql.TimeLiteral:
		got = fmt.Sprintf("time:%d", r.Val.UnixNano())
	case *influxql.DurationLiteral:
		got = fmt.Sprintf("duration:%d", int64(r.Val))
	case *influxql.BooleanLiteral:
		got = fmt.Sprintf("bool:%v", r.Val)
	}
	var out []ev.Finding
	shape := fmt.Sprintf("%s(%s,%s)", c09tops[c.Tree.Op], c09tshape(c.Tree.L), c09tshape(c.Tree.R))
	if got != want.String() && !(strings.HasPrefix(got, "unreduced:") && c.Tree.hasMulDiv()) {
		out = append(out, ev.Finding{Sig: "time-tree:" + ev.SigSafe(shape) + ":" + strings.SplitN(got, ":", 2)[0], Witness: wit,
			Detail: fmt.Sprintf("Reduce gives %s, exact arithmetic gives %s", got, want), Case: c, Rank: len(wit)})
	}
	if !astx.Equal(astx.Full, red, red2) {
		out = append(out, ev.Finding{Sig: "time-tree-not-idempotent:" + ev.SigSafe(shape), Witness: wit, Detail: fmt.Sprintf("%s then %s", red, red2), Case: c, Rank: len(wit)})
	}
	return out
}

func c09tshape(n *c09tnode) string {
	if n.Leaf != "" {
		return n.Leaf
	}
	return fmt.Sprintf("%s(%s,%s)", c09tops[n.Op], c09tshape(n.L), c09tshape(n.R))
}

// c09trees enumerates every well-typed tree with two or three leaves.
func c09trees() []*c09tnode {
	var leaves []*c09tnode
	for i := range c09tT {
		leaves = append(leaves, &c09tnode{Leaf: "T", Idx: i})
	}
	for i := range c09tD {
		leaves = append(leaves, &c09tnode{Leaf: "D", Idx: i})
	}
	for i := range c09tK {
		leaves = append(leaves, &c09tnode{Leaf: "K", Idx: i})
	}
	var d1, out []*c09tnode
	for op := range c09tops {
		for _, l := range leaves {
			for _, r := range leaves {
				n := &c09tnode{Op: op, L: l, R: r}
				if _, ok := n.eval(nil); ok {
					d1 = append(d1, n)
				}
			}
		}
	}
	out = append(out, d1...)
	for op := range c09tops {
		for _, in := range d1 {
			for _, paren := range []bool{false, true} {
				inner := *in
				inner.Paren = paren
				for _, lf := range leaves {
					for _, n := range []*c09tnode{{Op: op, L: &inner, R: lf}, {Op: op, L: lf, R: &inner}} {
						if _, ok := n.eval(nil); ok {
							out = append(out, n)
						}
					}
				}
			}
		}
	}
	return out
}

func init() {
	register(&Check{ID: "C09", Run: c09run, Replay: func(raw json.RawMessage) []ev.Finding {
		var c c09Case
		if json.Unmarshal(raw, &c) != nil {
			return nil
		}
		return c09eval(c)
	}})
}

func c09leaves(nI, nU, nF, nB, nS int) []c09leaf {
	var out []c09leaf
	add := func(kind, n int) {
		for v := 0; v < n; v++ {
			for m := 0; m < 3; m++ {
				out = append(out, c09leaf{kind, v, m})
			}
		}
	}
	add(kI, nI)
	add(kU, nU)
	add(kF, nF)
	add(kB, nB)
	add(kS, nS)
	return out
}

func c09run(r *ev.Run) {
	th := thorough(r)
	full := c09leaves(len(c09I), len(c09U), len(c09F), len(c09B), len(c09S))
	d2 := c09leaves(3, 1, 1, 2, 1)
	if th {
		d2 = c09leaves(4, 3, 3, 2, 2)
	}
	nops := len(c09ops)
	var wellTyped, reducedChanged int64
	run := func(c c09Case) {
		if c.Time == nil && c.Tree == nil && !c.wellTyped() {
			return
		}
		n := r.Eval()
		r.Trans(int64(len(c.Leaves) + len(c.Ops)))
		var label string
		if c.Tree != nil {
			label = fmt.Sprintf("tree|%s|%d", c.Tree.expr().String(), c.Zone)
		} else if c.Time == nil {
			e, r1, _ := c.build()
			label = fmt.Sprintf("%s|%v|%v|%d", e.String(), r1, c.Leaves, c.Names)
		} else {
			label = fmt.Sprintf("time|%+v", *c.Time)
		}
		r.State(astx.HashString(label), true)
		r.Sample(n, func() interface{} { return label })
		for _, f := range c09eval(c) {
			r.Report(f)
		}
	}
	_ = wellTyped
	_ = reducedChanged
	// depth 0 and 1: full value tables
	for i := range full {
		run(c09Case{Shape: 0, Leaves: []c09leaf{full[i]}})
		if full[i].Mode != 0 {
			run(c09Case{Shape: 0, Leaves: []c09leaf{full[i]}, Names: 1})
		}
	}
	parallelFor(len(full), func(i int) {
		for j := range full {
			for o := 0; o < nops; o++ {
				for _, shape := range []int{1, 6, 7} {
					run(c09Case{Shape: shape, Ops: []int{o}, Leaves: []c09leaf{full[i], full[j]}})
				}
				// a variable is a name like any other, also when the name is that of the time column
				if full[i].Mode != 0 || full[j].Mode != 0 {
					run(c09Case{Shape: 1, Ops: []int{o}, Leaves: []c09leaf{full[i], full[j]}, Names: 1})
				}
			}
		}
	})
	// depth 2
	parallelFor(len(d2)*nops, func(x int) {
		i, o0 := x/nops, x%nops
		for j := range d2 {
			for k := range d2 {
				for o1 := 0; o1 < nops; o1++ {
					for _, shape := range []int{2, 3, 4, 5, 8} {
						run(c09Case{Shape: shape, Ops: []int{o0, o1}, Leaves: []c09leaf{d2[i], d2[j], d2[k]}})
					}
				}
			}
		}
	})
	// time arithmetic
	for z := range c09zones {
		for t1 := range c09instants {
			for di := range c09durs {
				for form := 0; form <= 2; form++ {
					run(c09Case{Time: &c09Time{Form: form, T1: t1, D: di, Zone: z}})
				}
			}
			for t2 := range c09instants {
				for form := 3; form < 4+len(c09cmp); form++ {
					run(c09Case{Time: &c09Time{Form: form, T1: t1, T2: t2, Zone: z}})
				}
			}
		}
	}
	trees := c09trees()
	parallelFor(len(trees), func(i int) {
		for z := range c09zones {
			run(c09Case{Tree: trees[i], Zone: z})
		}
	})
	r.Set("time_trees", len(trees))
	r.Set("leaf_alphabet_depth1", len(full))
	r.Set("leaf_alphabet_depth2", len(d2))
	r.Set("operators", nops)
	r.Set("time_instants", len(c09instants))
	r.Set("time_zones", len(c09zones))
	r.Rule = "all well-typed trees of depth<=2 (leaf, a op b, left and right nested, with and without explicit ParenExpr) over 16 operators; leaves = boundary values of 5 kinds x {literal, variable bound at Reduce time, variable bound at Eval time}; ill-typed trees are skipped by the generator's typing rule and not counted. Plus timestamp/now() ± duration, differences and comparisons over instants x durations x zones, and every well-typed tree with two or three leaves over instants, durations and small integers (T±D, D+T, T-T, D±D, D*K, K*D, D/K, comparisons of like kinds; with and without parentheses around the inner node) against exact int64 nanosecond arithmetic. Every counted case is non-trivial (both evaluators run and are compared)."
	r.Assumptions = []string{"bitwise operators are treated as well-typed on integer/unsigned pairs and on boolean pairs; equality as well-typed on any two numbers or two values of the same kind", "time reference: time.Date(...).UnixNano() arithmetic in int64"}
}
