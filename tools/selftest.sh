#!/bin/sh
# usage: selftest.sh [pattern]     e.g. selftest.sh 'C1*-[ef]'
# Applies every archived change under /verif/seeded (matching the pattern, default all) to /repo in turn, runs the
# quick tier of the owning check, undoes the change, and reports the ones the check does NOT catch. A change that no
# longer applies to the current tree (a later repair touched the same lines) is tried with a three-way merge and
# otherwise listed as skipped. /repo must be clean; nothing is committed.
PAT=${1:-*}
cd /verif || exit 2
miss=0; n=0; skipped=0
for d in seeded/$PAT; do
  [ -f "$d/patch.diff" ] || continue
  id=$(basename "$d" | cut -d- -f1)
  out=$(sh tools/seedcheck.sh "/verif/$d/patch.diff" "$id" quick 2>&1 | tail -1)
  n=$((n+1))
  if [ -f "$d/SUPERSEDED" ]; then
    # a later repair made this change harmless: the check must now stay quiet on it
    case "$out" in *"rc=0 "*) ;; *) miss=$((miss+1)); echo "ALARM ON SUPERSEDED $d :: $out";; esac
    continue
  fi
  case "$out" in
    *"does not apply"*) skipped=$((skipped+1)); echo "SKIPPED $d (does not apply to this tree)";;
    *"rc=1 "*) ;;
    *) miss=$((miss+1)); echo "NOT CAUGHT $d :: $out";;
  esac
done
echo "selftest: $n changes, $miss not caught, $skipped skipped"
[ "$miss" -eq 0 ]
