package checks

import (
	"context"
	"encoding/json"
	"fmt"
	"math"
	"os"
	"os/exec"
	"reflect"
	"runtime"
	"strings"
	"sync"
	"sync/atomic"
	"time"
	"unicode/utf8"

	"github.com/influxdata/influxql"

	"verif/harness/astx"
	"verif/harness/ev"
	"verif/harness/gram"
	"verif/harness/lexx"
	"verif/harness/xplore"
)

// C04 — parsing is total: any input yields an AST or an error, never a crash or hang.

type c04Case struct {
	Bytes  []byte `json:"bytes"`
	Text   string `json:"text"`  // %q form, for reading
	Entry  int    `json:"entry"` // 0 ParseQuery, 1 ParseStatement, 2 ParseExpr
	Param  string `json:"param,omitempty"`
	ParamN int    `json:"param_n,omitempty"`
	Ladder string `json:"ladder,omitempty"`
	N      int    `json:"n,omitempty"`
	Deep   bool   `json:"deep,omitempty"`  // the ladder is parsed in a child process (a stack overflow cannot be recovered from)
	Scale  string `json:"scale,omitempty"` // one long token of N bytes, compared with the same token of N/8 bytes
}

var c04entries = []string{"ParseQuery", "ParseStatement", "ParseExpr"}

var c04maxTokPush, c04maxRunePush int64
var c04hung int32
var c04slow int64
var c04hangAfter = 60 * time.Second

func noteMax(dst *int64, v int) {
	for {
		old := atomic.LoadInt64(dst)
		if int64(v) <= old || atomic.CompareAndSwapInt64(dst, old, int64(v)) {
			return
		}
	}
}

func isNilResult(v interface{}) bool {
	if v == nil {
		return true
	}
	rv := reflect.ValueOf(v)
	return (rv.Kind() == reflect.Ptr || rv.Kind() == reflect.Slice || rv.Kind() == reflect.Interface) && rv.IsNil()
}

// c04parse runs one entry point under the scan budget and checks the oracle.
func c04parse(text string, entry int, params map[string]interface{}, cs interface{}, witness string, rank int) (fs []ev.Finding, accepted bool) {
	runes := utf8.RuneCountInString(text)
	budget := 40 * (runes + 8)
	var res interface{}
	var err error
	var stats influxql.VerifStats
	if atomic.LoadInt32(&c04hung) != 0 {
		return nil, false // a parse is stuck: the run is being wound up
	}
	var pv interface{}
	var st string
	done := make(chan struct{})
	go func() {
		defer close(done)
		pv, st = try(func() {
			p := influxql.NewParser(strings.NewReader(text))
			p.VerifSetBudget(budget)
			if params != nil {
				p.SetParams(params)
			}
			defer func() { stats = p.VerifStats() }()
			switch entry {
			case 0:
				res, err = p.ParseQuery()
			case 1:
				res, err = p.ParseStatement()
			default:
				res, err = p.ParseExpr()
			}
		})
	}()
	// The scan budget bounds the parser's own loops; this guard is for a parse that blocks outside them (a lock that
	// is never released). It is not a performance oracle: a parse takes microseconds, the guard waits a minute.
	timer := time.NewTimer(c04hangAfter)
	select {
	case <-done:
		timer.Stop()
	case <-timer.C:
		// a second full wait: a process that was merely stopped for a while (and whose timer fired on resumption)
		// finishes the parse now; a blocked one does not
		timer2 := time.NewTimer(c04hangAfter)
		select {
		case <-done:
			timer2.Stop()
			atomic.AddInt64(&c04slow, 1)
		case <-timer2.C:
			atomic.StoreInt32(&c04hung, 1)
			// one signature for every entry point: what blocks is state of the process, and on replay the first entry
			// point tried is the one that blocks
			return []ev.Finding{{Sig: "hang", Witness: witness, Detail: fmt.Sprintf("%s did not return within %v (the inputs parsed earlier in this process may be part of the cause: state carried between calls)", c04entries[entry], 2*c04hangAfter), Case: cs, Rank: rank}}, false
		}
	}
	name := c04entries[entry]
	rep := func(sig, detail string) {
		fs = append(fs, ev.Finding{Sig: sig, Witness: witness, Detail: detail, Case: cs, Rank: rank})
	}
	if pv != nil {
		if be, ok := pv.(influxql.VerifBudgetExceeded); ok {
			rep("work-not-linear:"+name, fmt.Sprintf("more than %d token reads for %d runes (%d so far): the parser does not finish in time proportional to the input", budget, runes, be.Steps))
		} else {
			rep("panic:"+name+":"+panicClass(pv), fmt.Sprintf("%v\n%s", pv, trimStack(st)))
		}
		return fs, false
	}
	noteMax(&c04maxTokPush, stats.TokenMaxPush)
	noteMax(&c04maxRunePush, stats.RuneMaxPush)
	if stats.TokenStale > 0 {
		rep("token-ring-overrun:"+name, fmt.Sprintf("%d reads of a token slot that was never filled or already overwritten (deepest pushback %d of 3)", stats.TokenStale, stats.TokenMaxPush))
	}
	if stats.RuneStale > 0 {
		rep("rune-ring-overrun:"+name, fmt.Sprintf("%d reads of a rune slot that was never filled or already overwritten (deepest pushback %d of 3)", stats.RuneStale, stats.RuneMaxPush))
	}
	if err == nil && isNilResult(res) {
		rep("nil-result-without-error:"+name, "returned (nil, nil)")
		return fs, false
	}
	// (a partially built result returned together with an error is an error return, which the property allows)
	if err != nil {
		return fs, false
	}
	// a returned result can be printed and traversed
	if p2, st2 := try(func() {
		switch v := res.(type) {
		case *influxql.Query:
			_ = v.String()
			influxql.WalkFunc(v, func(influxql.Node) {})
		case influxql.Statement:
			_ = v.String()
			influxql.WalkFunc(v, func(influxql.Node) {})
		case influxql.Expr:
			_ = v.String()
			influxql.WalkFunc(v, func(influxql.Node) {})
		}
	}); p2 != nil {
		rep("panic:print-or-walk-of-result:"+name+":"+panicClass(p2), fmt.Sprintf("%v\n%s", p2, trimStack(st2)))
	}
	return fs, true
}

func c04text(b string, entry int, rank int) ([]ev.Finding, bool) {
	return c04parse(b, entry, nil, c04Case{Bytes: []byte(b), Text: fmt.Sprintf("%q", b), Entry: entry}, fmt.Sprintf("%s(%q)", c04entries[entry], b), rank)
}

// ---- ladders ----------------------------------------------------------------------------------------------

var c04ladders = map[string]func(n int) (string, int){
	"parens": func(n int) (string, int) { return strings.Repeat("(", n) + "x" + strings.Repeat(")", n), 2 },
	"stmt-parens": func(n int) (string, int) {
		return "SELECT " + strings.Repeat("(", n) + "x" + strings.Repeat(")", n) + " FROM m", 1
	},
	"subqueries": func(n int) (string, int) {
		return strings.Repeat("SELECT a FROM (", n) + "SELECT a FROM m" + strings.Repeat(")", n), 1
	},
	"calls":        func(n int) (string, int) { return strings.Repeat("f(", n) + "x" + strings.Repeat(")", n), 2 },
	"chain":        func(n int) (string, int) { return "a" + strings.Repeat(" + a", n), 2 },
	"and-chain":    func(n int) (string, int) { return "SELECT a FROM m WHERE a = 1" + strings.Repeat(" AND a = 1", n), 1 },
	"unary-minus":  func(n int) (string, int) { return strings.Repeat("-(", n) + "x" + strings.Repeat(")", n), 2 },
	"fields":       func(n int) (string, int) { return "SELECT a" + strings.Repeat(", a", n) + " FROM m", 1 },
	"sources":      func(n int) (string, int) { return "SELECT a FROM m" + strings.Repeat(", m", n), 1 },
	"statements":   func(n int) (string, int) { return strings.Repeat("SELECT a FROM m;", n), 0 },
	"semicolons":   func(n int) (string, int) { return strings.Repeat(";", n), 0 },
	"open-parens":  func(n int) (string, int) { return strings.Repeat("(", n), 2 },
	"open-comment": func(n int) (string, int) { return "SELECT a FROM m /*" + strings.Repeat("*", n), 0 },
	"long-string":  func(n int) (string, int) { return "SELECT a FROM m WHERE b = '" + strings.Repeat("x", n), 1 },
	"dots":         func(n int) (string, int) { return "SELECT a FROM m" + strings.Repeat(".", n), 1 },
	"segments":     func(n int) (string, int) { return "SELECT a FROM a" + strings.Repeat(".a", n), 1 },
	"whitespace":   func(n int) (string, int) { return "SELECT a" + strings.Repeat(" \n", n) + "FROM m", 1 },
}

// ---- very deep nesting, in a child process ------------------------------------------------------------------

// C04DeepChild is the body of the child process: parse one ladder text and say how the call returned. A stack that
// grows past the runtime's limit ends the process with a fatal error, which no recover() can turn into a result.
func C04DeepChild(ladder string, n int) {
	f, ok := c04ladders[ladder]
	if !ok {
		fmt.Println("c04-deep: no such ladder")
		os.Exit(2)
	}
	t, e := f(n)
	var err error
	var res interface{}
	p := influxql.NewParser(strings.NewReader(t))
	switch e {
	case 0:
		res, err = p.ParseQuery()
	case 1:
		res, err = p.ParseStatement()
	default:
		res, err = p.ParseExpr()
	}
	msg := ""
	if err != nil {
		msg = err.Error()
		if len(msg) > 120 {
			msg = msg[:120]
		}
	}
	fmt.Printf("c04-deep returned: result=%v error=%q\n", !isNilResult(res), msg)
}

var c04deepUnknown int64

var c04deepLadders = []string{"parens", "stmt-parens", "subqueries", "calls", "unary-minus", "open-parens"}

func c04deep(ladder string, n int) []ev.Finding {
	exe, err := os.Executable()
	if err != nil {
		return nil
	}
	ctx, cancel := context.WithTimeout(context.Background(), 10*time.Minute)
	defer cancel()
	cmd := exec.CommandContext(ctx, exe, "c04-deep", ladder, fmt.Sprint(n))
	out, runErr := cmd.CombinedOutput()
	text := string(out)
	if strings.Contains(text, "c04-deep returned:") {
		return nil
	}
	if ctx.Err() != nil {
		return nil // the child was stopped by the guard: no statement about it (the scan budget is the in-process oracle)
	}
	_, e := c04ladders[ladder](1)
	cs := c04Case{Ladder: ladder, N: n, Entry: e, Deep: true}
	var kind string
	switch {
	case strings.Contains(text, "stack overflow") || strings.Contains(text, "stack exceeds"):
		kind = "stack-overflow"
	case strings.Contains(text, "out of memory"):
		kind = "out-of-memory"
	case strings.Contains(text, "fatal error:") || strings.Contains(text, "panic:"):
		kind = "crash"
	default:
		// ended from outside (a kill by the system) without a word from the Go runtime: nothing is known about the parse
		atomic.AddInt64(&c04deepUnknown, 1)
		return nil
	}
	first := text
	if len(first) > 400 {
		first = first[:400]
	}
	return []ev.Finding{{Sig: "fatal:" + kind + ":" + ladder, Witness: fmt.Sprintf("ladder %s n=%d (%s)", ladder, n, c04entries[e]),
		Detail: fmt.Sprintf("%s on the %s ladder with n=%d does not return: the process ends (%v) with: %s", c04entries[e], ladder, n, runErr, first), Case: cs, Rank: n}}
}

// ---- one long token: work proportional to its length ----------------------------------------------------------

var c04scales = map[string]func(n int) (string, int){
	"block-comment":       func(n int) (string, int) { return "SELECT a FROM m /*" + strings.Repeat("x", n) + "*/", 0 },
	"block-comment-open":  func(n int) (string, int) { return "SELECT a FROM m /*" + strings.Repeat("x", n), 0 },
	"block-comment-stars": func(n int) (string, int) { return "SELECT a /*" + strings.Repeat("*", n) + "*/ FROM m", 0 },
	"line-comment":        func(n int) (string, int) { return "SELECT a FROM m --" + strings.Repeat("x", n) + "\n", 0 },
	"string":              func(n int) (string, int) { return "SELECT a FROM m WHERE b = '" + strings.Repeat("x", n) + "'", 1 },
	"string-escapes":      func(n int) (string, int) { return "SELECT a FROM m WHERE b = '" + strings.Repeat("\\'", n/2) + "'", 1 },
	"quoted-identifier":   func(n int) (string, int) { return "SELECT \"" + strings.Repeat("x", n) + "\" FROM m", 1 },
	"identifier":          func(n int) (string, int) { return "SELECT " + strings.Repeat("x", n) + " FROM m", 1 },
	"digits":              func(n int) (string, int) { return "SELECT a FROM m WHERE b = " + strings.Repeat("1", n), 1 },
	"regex":               func(n int) (string, int) { return "SELECT a FROM m WHERE b =~ /" + strings.Repeat("x", n) + "/", 1 },
	"whitespace":          func(n int) (string, int) { return "SELECT a" + strings.Repeat(" \n", n/2) + "FROM m", 1 },
	"short-comments":      func(n int) (string, int) { return "SELECT a " + strings.Repeat("/**/", n/4) + " FROM m", 1 },
	"expression-string":   func(n int) (string, int) { return "a = '" + strings.Repeat("x", n) + "'", 2 },
	"expression-comment":  func(n int) (string, int) { return "a /*" + strings.Repeat("x", n) + "*/ + 1", 2 },
	"placeholder":         func(n int) (string, int) { return "SELECT a FROM m WHERE b = $" + strings.Repeat("x", n), 1 },
	"unterminated-string": func(n int) (string, int) { return "SELECT a FROM m WHERE b = '" + strings.Repeat("x", n), 1 },
	"unterminated-regex":  func(n int) (string, int) { return "SELECT a FROM m WHERE b =~ /" + strings.Repeat("x", n), 1 },
	"invalid-utf8":        func(n int) (string, int) { return "SELECT a FROM m WHERE b = '" + strings.Repeat("\xff", n) + "'", 1 },
	"duration-components": func(n int) (string, int) { return "SELECT a FROM m WHERE b = " + strings.Repeat("1h", n/2), 1 },
}

var c04scaleMu sync.Mutex

// c04measure parses the text once and returns the bytes allocated and the time taken.
func c04measure(text string, entry int) (alloc uint64, d time.Duration, pv interface{}) {
	var m0, m1 runtime.MemStats
	runtime.ReadMemStats(&m0)
	t0 := time.Now()
	pv, _ = try(func() {
		p := influxql.NewParser(strings.NewReader(text))
		switch entry {
		case 0:
			p.ParseQuery()
		case 1:
			p.ParseStatement()
		default:
			p.ParseExpr()
		}
	})
	d = time.Since(t0)
	runtime.ReadMemStats(&m1)
	return m1.TotalAlloc - m0.TotalAlloc, d, pv
}

// c04scale compares one long token of n bytes with the same token of n/8 bytes. Work proportional to the length
// means about eight times the allocation and the time; quadratic work means sixty-four times. The allocation count is
// exact and is the deciding measure (run alone, nothing else allocates); time decides only when the longer parse takes
// at least five seconds in the fastest of three runs, where a linear scanner needs milliseconds.
func c04scale(name string, n int) []ev.Finding {
	f, ok := c04scales[name]
	if !ok {
		return nil
	}
	c04scaleMu.Lock()
	defer c04scaleMu.Unlock()
	small, e := f(n / 8)
	large, _ := f(n)
	cs := c04Case{Scale: name, N: n, Entry: e}
	wit := fmt.Sprintf("%s with one %s of %d bytes", c04entries[e], name, n)
	c04measure(small, e) // warm-up: lazily built tables are not charged to either size
	a1, t1, p1 := c04measure(small, e)
	if p1 != nil {
		return []ev.Finding{{Sig: "panic:" + c04entries[e] + ":" + panicClass(p1), Witness: wit, Detail: fmt.Sprint(p1), Case: cs, Rank: n}}
	}
	a8, t8, p8 := c04measure(large, e)
	if p8 != nil {
		return []ev.Finding{{Sig: "panic:" + c04entries[e] + ":" + panicClass(p8), Witness: wit, Detail: fmt.Sprint(p8), Case: cs, Rank: n}}
	}
	const slack = 4 << 20
	if a8 > 24*a1+slack {
		return []ev.Finding{{Sig: "allocation-not-linear:" + name, Witness: wit,
			Detail: fmt.Sprintf("%d bytes allocated for %d input bytes but %d for %d: growth %.1fx for 8x the input (a linear scanner gives about 8x, a quadratic one 64x)", a1, len(small), a8, len(large), float64(a8)/float64(a1+1)), Case: cs, Rank: n}}
	}
	if t8 >= 5*time.Second && t8 > 24*t1 {
		for i := 0; i < 2; i++ {
			if _, t, _ := c04measure(small, e); t > t1 {
				t1 = t // the slower reading of the short text, the faster of the long one: both favour the code under test
			}
			if _, t, _ := c04measure(large, e); t < t8 {
				t8 = t
			}
		}
		if t8 >= 5*time.Second && t8 > 24*t1 {
			return []ev.Finding{{Sig: "time-not-linear:" + name, Witness: wit,
				Detail: fmt.Sprintf("%v for %d input bytes but %v for %d (fastest of three): growth %.0fx for 8x the input", t1, len(small), t8, len(large), float64(t8)/float64(t1+1)), Case: cs, Rank: n}}
		}
	}
	return nil
}

// ---- adversarial parameter values ----------------------------------------------------------------------------

type c04param struct {
	name string
	v    func() interface{}
}

var c04params = []c04param{
	{"NaN", func() interface{} { return math.NaN() }}, {"+Inf", func() interface{} { return math.Inf(1) }}, {"-Inf", func() interface{} { return math.Inf(-1) }},
	{"1e308", func() interface{} { return 1e308 }}, {"-0.0", func() interface{} { return math.Copysign(0, -1) }},
	{"MinInt64", func() interface{} { return int64(math.MinInt64) }}, {"MaxInt64", func() interface{} { return int64(math.MaxInt64) }},
	{"string select", func() interface{} { return "select" }}, {"string empty", func() interface{} { return "" }}, {"string NUL", func() interface{} { return "a\x00b" }},
	{"string invalid utf8", func() interface{} { return "\xff\xfe" }}, {"string $p", func() interface{} { return "$p" }},
	{"ident select", func() interface{} { return map[string]interface{}{"ident": "select"} }}, {"ident empty", func() interface{} { return map[string]interface{}{"ident": ""} }},
	{"ident with dot", func() interface{} { return map[string]interface{}{"ident": "a.b.c.d.e"} }},
	{"regex (", func() interface{} { return map[string]interface{}{"regex": "("} }}, {"regex empty", func() interface{} { return map[string]interface{}{"regex": ""} }},
	{"regex slash", func() interface{} { return map[string]interface{}{"regex": "/"} }},
	{"duration huge", func() interface{} { return map[string]interface{}{"duration": "99999999999999999999h"} }},
	{"duration negative", func() interface{} { return map[string]interface{}{"duration": "-1h"} }}, {"duration empty", func() interface{} { return map[string]interface{}{"duration": ""} }},
	{"duration garbage", func() interface{} { return map[string]interface{}{"duration": "h1"} }},
	{"duration truncated µ", func() interface{} { return map[string]interface{}{"duration": "10\xc2"} }}, {"duration 2 components truncated µ", func() interface{} { return map[string]interface{}{"duration": "1m30\xc2"} }},
	{"duration bad byte", func() interface{} { return map[string]interface{}{"duration": "10\xb5\xff"} }}, {"duration only sign", func() interface{} { return map[string]interface{}{"duration": "-"} }},
	{"regex invalid utf8", func() interface{} { return map[string]interface{}{"regex": "a\xffb"} }}, {"ident invalid utf8", func() interface{} { return map[string]interface{}{"ident": "\xc2"} }}, {"duration MinInt64", func() interface{} { return map[string]interface{}{"duration": int64(math.MinInt64)} }},
	{"integer MinInt64", func() interface{} { return map[string]interface{}{"integer": int64(math.MinInt64)} }},
	{"float NaN", func() interface{} { return map[string]interface{}{"float": math.NaN()} }},
	{"nested map", func() interface{} { return map[string]interface{}{"string": map[string]interface{}{"string": "x"}} }},
	{"two entries", func() interface{} { return map[string]interface{}{"string": "x", "ident": "y"} }}, {"empty map", func() interface{} { return map[string]interface{}{} }},
	{"int", func() interface{} { return 5 }}, {"nil", func() interface{} { return nil }}, {"slice", func() interface{} { return []interface{}{"a", 1} }},
	{"json.Number huge", func() interface{} { return json.Number("99999999999999999999999") }}, {"json.Number dot", func() interface{} { return json.Number(".") }},
	{"json.Number 1e400", func() interface{} { return json.Number("1.0e400") }},
	{"bool", func() interface{} { return true }}, {"func", func() interface{} { return func() {} }}, {"error value name", func() interface{} { return map[string]interface{}{"unknown": "x"} }},
}

// c04paramBody: statement x value slot x adversarial value.
func c04paramBody(c *xplore.Ctx) (text string, form string, fs []ev.Finding, skipped bool) {
	g := gram.New(c)
	g.NoValueAlts = true
	chosen := -1
	g.Hook = func(idx int, k gram.Kind, role, def string) (string, string) {
		if chosen < 0 && c.ChooseC(cParam, 2) == 1 {
			chosen = c.Free(len(c04params) + 2)
			name := "p"
			if chosen == len(c04params)+1 {
				name = "\x00" // the empty placeholder "$"
			}
			return def, name
		}
		return def, ""
	}
	spec := gram.Statement(g)
	if g.InvalidWhy != "" || chosen < 0 {
		return "", spec.Form, nil, true
	}
	text = gram.Render(nil, spec.Toks)
	params := map[string]interface{}{}
	pname := "<unbound>"
	if chosen < len(c04params) {
		params["p"] = c04params[chosen].v()
		pname = c04params[chosen].name
	} else if chosen == len(c04params)+1 {
		pname = "<empty placeholder, \"\" bound to 5>"
		params[""] = int64(5)
	}
	wit := fmt.Sprintf("%s with $p = %s", text, pname)
	for entry := 0; entry < 2; entry++ {
		f, ok := c04parse(text, entry, params, vecCase{Vector: c.Vector()}, wit, c.TotalCost()*1000+len(text))
		fs = append(fs, f...)
		if ok && chosen >= len(c04params) {
			// an unbound or empty placeholder must produce an error, whatever the parameter map contains
			fs = append(fs, ev.Finding{Sig: "unbound-or-empty-placeholder-accepted:" + c04entries[entry], Witness: wit, Detail: "the parse succeeded", Case: vecCase{Vector: c.Vector()}, Rank: c.TotalCost()*1000 + len(text)})
		}
	}
	return wit, spec.Form, fs, false
}

// c04corpusBody: the statements of the grammar model as they are, values included (also those the model calls invalid:
// the parser has to answer something). What a handler computes from the values of two clauses (a ratio, a comparison)
// is computed here.
func c04corpusBody(c *xplore.Ctx) (text string, form string, fs []ev.Finding, skipped bool) {
	g := gram.New(c)
	spec := gram.Statement(g)
	text = gram.Render(nil, spec.Toks)
	cs := vecCase{Vector: c.Vector()}
	for _, e := range []int{0, 1} {
		f, _ := c04parse(text, e, nil, cs, fmt.Sprintf("%s(%q)", c04entries[e], text), c.TotalCost()*1000+len(text))
		for i := range f {
			f[i].Sig = "corpus:" + f[i].Sig
		}
		fs = append(fs, f...)
	}
	return text, spec.Form, fs, false
}

// c04editBody: statement x single token edit (delete, replace by sigma, insert sigma).
func c04editBody(alpha []string) func(c *xplore.Ctx) (string, string, []ev.Finding, bool) {
	return func(c *xplore.Ctx) (text string, form string, fs []ev.Finding, skipped bool) {
		g := gram.New(c)
		g.NoValueAlts = true
		spec := gram.Statement(g)
		if g.InvalidWhy != "" {
			return "", spec.Form, nil, true
		}
		ps := gram.RenderPieces(nil, spec.Toks)
		pos := c.Free(len(ps) + 1)
		kind := c.Free(3) // 0 delete, 1 replace, 2 insert before
		if (kind != 2 && pos == len(ps)) || (kind == 0 && len(ps) == 0) {
			return "", spec.Form, nil, true
		}
		var b strings.Builder
		sig := ""
		if kind != 0 {
			sig = alpha[c.Free(len(alpha))]
		}
		for i, p := range ps {
			if i == pos {
				switch kind {
				case 0:
					continue
				case 1:
					b.WriteString(p.Gap)
					b.WriteString(sig)
					continue
				case 2:
					b.WriteString(p.Gap)
					b.WriteString(sig)
					b.WriteString(" ")
					b.WriteString(p.Text)
					continue
				}
			}
			b.WriteString(p.Gap)
			b.WriteString(p.Text)
		}
		if kind == 2 && pos == len(ps) {
			b.WriteString(" " + sig)
		}
		text = b.String()
		for entry := 0; entry < 2; entry++ {
			f, _ := c04parse(text, entry, nil, vecCase{Vector: c.Vector()}, fmt.Sprintf("%s(%q)", c04entries[entry], text), c.TotalCost()*1000+len(text))
			fs = append(fs, f...)
		}
		return text, spec.Form, fs, false
	}
}

func init() {
	register(&Check{ID: "C04", Run: c04run, Replay: func(raw json.RawMessage) []ev.Finding {
		if atomic.LoadInt32(&c04hung) != 0 {
			c04hangAfter = 5 * time.Second // the process is already known to be stuck; confirming it need not take long
		}
		atomic.StoreInt32(&c04hung, 0)
		var probe map[string]json.RawMessage
		if json.Unmarshal(raw, &probe) != nil {
			return nil
		}
		if _, ok := probe["vector"]; ok {
			var c vecCase
			json.Unmarshal(raw, &c)
			var out []ev.Finding
			for _, body := range []func(*xplore.Ctx) (string, string, []ev.Finding, bool){c04paramBody, c04editBody(lexx.Core), c04editBody(lexx.Sigma), c04corpusBody} {
				func() {
					defer func() { recover() }()
					xplore.Replay(func(x *xplore.Ctx) { _, _, f, _ := body(x); out = append(out, f...) }, c.Vector)
				}()
			}
			return out
		}
		var c c04Case
		json.Unmarshal(raw, &c)
		if c.Deep {
			return c04deep(c.Ladder, c.N)
		}
		if c.Scale != "" {
			return c04scale(c.Scale, c.N)
		}
		if c.Ladder != "" {
			t, e := c04ladders[c.Ladder](c.N)
			f, _ := c04parse(t, e, nil, c, fmt.Sprintf("ladder %s n=%d", c.Ladder, c.N), c.N)
			return f
		}
		f, _ := c04text(string(c.Bytes), c.Entry, 0)
		return f
	}})
}

func c04run(r *ev.Run) {
	th := thorough(r)
	var acceptedN int64
	run := func(text string, entries []int) {
		for _, e := range entries {
			fs, ok := c04text(text, e, len(text))
			n := r.Eval()
			if ok {
				atomic.AddInt64(&acceptedN, 1)
			}
			r.Trans(int64(utf8.RuneCountInString(text)) + 1)
			r.State(astx.HashString(fmt.Sprintf("%d|%s", e, text)), len(text) > 0)
			r.Sample(n, func() interface{} { return fmt.Sprintf("%s(%q)", c04entries[e], text) })
			for _, f := range fs {
				r.Report(f)
			}
		}
	}
	all := []int{0, 1, 2}
	// (a) lexeme sequences
	alpha, k := lexx.Core, 3
	if th {
		alpha = lexx.Sigma
	}
	n := len(alpha)
	parallelFor(lexx.Count(n, k), func(idx int) {
		var b strings.Builder
		for _, i := range lexx.Decode(idx, n) {
			b.WriteString(alpha[i])
		}
		run(b.String(), all)
	})
	if th {
		nc := len(lexx.Core)
		parallelFor(nc*nc*nc*nc, func(idx int) {
			x := idx
			var b strings.Builder
			for i := 0; i < 4; i++ {
				b.WriteString(lexx.Core[x%nc])
				x /= nc
			}
			run(b.String(), all)
		})
	}
	// (d) byte strings
	parallelFor(256, func(a int) {
		run(string([]byte{byte(a)}), all)
		for b := 0; b < 256; b++ {
			run(string([]byte{byte(a), byte(b)}), all)
		}
	})
	sel := []byte("a1 \n\r\t'\"\\/*-$.:;,()=!<>~+%&|^_SEe\x00\xff\xc3\xa9#h")
	parallelFor(len(sel)*len(sel), func(i int) {
		for _, c := range sel {
			run(string([]byte{sel[i/len(sel)], sel[i%len(sel)], c}), all)
		}
	})
	r.Set("lexeme_alphabet", n)
	r.Set("selected_bytes_for_length3", len(sel))
	// (b) single-token edits on the grammar corpus, (e) adversarial parameters
	editAlpha := lexx.Core
	sets := []boundSet{{"token edits: struct<=1 x every position x {delete, replace, insert} x core alphabet", []int{1, 0, 0}}}
	if th {
		editAlpha = lexx.Sigma
		sets = []boundSet{{"token edits: struct<=2 x every position x {delete, replace, insert} x full alphabet", []int{2, 0, 0}}}
	}
	runGrammar(r, sets, c04editBody(editAlpha))
	csets := []boundSet{{"corpus as generated: struct<=2,value<=1", []int{2, 0, 1}}}
	if th {
		csets = []boundSet{{"corpus as generated: struct<=3,value<=1", []int{3, 0, 1}}, {"corpus as generated: struct<=2,value<=2", []int{2, 0, 2}}}
	}
	runGrammar(r, csets, c04corpusBody)
	corpusNames := r.Extra["bound_sets"]
	psets := []boundSet{{"parameters: struct<=1 x every value slot x adversarial values", []int{1, 0, 0, 1}}}
	if th {
		psets = []boundSet{{"parameters: struct<=2 x every value slot x adversarial values", []int{2, 0, 0, 1}}}
	}
	editNames := r.Extra["bound_sets"]
	runGrammar(r, psets, c04paramBody)
	r.Set("bound_sets", []interface{}{editNames, corpusNames, r.Extra["bound_sets"]})
	// (c) nesting ladders
	maxN := 4096
	if th {
		maxN = 16384
	}
	var names []string
	for name := range c04ladders {
		names = append(names, name)
	}
	sortStrings(names)
	for _, name := range names {
		for nn := 1; nn <= maxN; nn *= 2 {
			t, e := c04ladders[name](nn)
			fs, ok := c04parse(t, e, nil, c04Case{Ladder: name, N: nn, Entry: e}, fmt.Sprintf("ladder %s n=%d", name, nn), nn)
			r.Eval()
			if ok {
				atomic.AddInt64(&acceptedN, 1)
			}
			r.State(astx.HashString(fmt.Sprintf("L|%s|%d", name, nn)), true)
			for _, f := range fs {
				r.Report(f)
			}
		}
	}
	// (c2) the nesting ladders once more at a depth of about a million, each in a child process
	deepN := 1 << 20
	for i := range c04deepLadders { // one child at a time: each may grow its stack to the runtime's limit of 1 GB
		fs := c04deep(c04deepLadders[i], deepN)
		r.Eval()
		r.State(astx.HashString(fmt.Sprintf("D|%s|%d", c04deepLadders[i], deepN)), true)
		for _, f := range fs {
			r.Report(f)
		}
	}
	r.Set("deep_ladder_children_ended_from_outside", atomic.LoadInt64(&c04deepUnknown))
	r.Set("deep_ladders_in_child_process", c04deepLadders)
	r.Set("deep_ladder_n", deepN)
	// (c3) one long token: allocation and time for 8x the length (sequential: the allocation counter is process-wide)
	scaleN := 256 << 10
	if th {
		scaleN = 1 << 20
	}
	var scaleNames []string
	for name := range c04scales {
		scaleNames = append(scaleNames, name)
	}
	sortStrings(scaleNames)
	for _, name := range scaleNames {
		fs := c04scale(name, scaleN)
		r.Eval()
		r.State(astx.HashString(fmt.Sprintf("X|%s|%d", name, scaleN)), true)
		for _, f := range fs {
			r.Report(f)
		}
	}
	r.Set("long_token_shapes", scaleNames)
	r.Set("long_token_bytes", scaleN)
	// (d) every prefix operator chain of length <= 2 in front of every operand kind, as an expression, a field, a
	// condition, a call argument and a dimension (the sign branch of the expression parser has one case per kind)
	signs := []string{"", "+", "-", "+ +", "- -", "+ -", "- +", "-(", "+(", "(+", "(-"}
	operands := []string{"1", "0", "9223372036854775807", "9223372036854775808", "18446744073709551615", "18446744073709551616", "1.5", ".5", "1e3", "1h", "0s",
		"'s'", "true", "now()", "x", `"q i"`, "/re/", "$p", "$", "*", "f(x)", "(x)", "x::float", "1h30", "''", `""`}
	frames := []struct {
		tmpl  string
		entry int
	}{{"%s", 2}, {"SELECT %s FROM m", 1}, {"SELECT x FROM m WHERE %s > 1", 1}, {"SELECT f(%s, 2) FROM m GROUP BY time(%s)", 1}, {"SELECT x FROM m WHERE time > now() - %s", 0}}
	var nSign int64
	parallelFor(len(signs)*len(operands), func(i int) {
		sg, op := signs[i/len(operands)], operands[i%len(operands)]
		e := sg + op
		if strings.Contains(sg, "(") {
			e += ")"
		}
		for _, fr := range frames {
			t := strings.ReplaceAll(fr.tmpl, "%s", e)
			for _, params := range []map[string]interface{}{nil, {"p": int64(-5)}, {"p": map[string]interface{}{"duration": "1h"}}} {
				if params != nil && !strings.Contains(t, "$") {
					continue
				}
				fs, _ := c04parse(t, fr.entry, params, c04Case{Bytes: []byte(t), Text: fmt.Sprintf("%q", t), Entry: fr.entry}, fmt.Sprintf("%s(%q)", c04entries[fr.entry], t), len(t))
				r.Eval()
				atomic.AddInt64(&nSign, 1)
				r.State(astx.HashString("S|"+t+fmt.Sprint(params)), true)
				for _, f := range fs {
					r.Report(f)
				}
			}
		}
	})
	r.Set("sign_x_operand_texts", atomic.LoadInt64(&nSign))
	r.AddSample(fmt.Sprintf("ladder parens n=%d: %s…", 4, func() string { t, _ := c04ladders["parens"](4); return t }()))
	r.Set("ladders", names)
	r.Set("ladder_max_n", maxN)
	r.Set("adversarial_parameter_values", len(c04params))
	r.Set("accepted_inputs", acceptedN)
	r.Set("deepest_token_pushback_observed", atomic.LoadInt64(&c04maxTokPush))
	r.Set("parses_slower_than_hang_guard_but_finished", atomic.LoadInt64(&c04slow))
	r.Set("deepest_rune_pushback_observed", atomic.LoadInt64(&c04maxRunePush))
	r.Set("scan_budget", "40*(runes+8) token reads per parse, enforced by the hook")
	r.Rule = fmt.Sprintf("(a) every concatenation of <=%d lexeme spellings from %d x {ParseQuery, ParseStatement, ParseExpr}; (b) every single-token edit (delete / replace by each spelling / insert each spelling) at every position of every statement of the grammar model within the bound; (c) %d nesting/length ladders for n = 1,2,4,…,%d, the six nesting ladders again at n = 2^20 in a child process (a stack overflow ends the process), and 19 shapes of one long token at n and n/8 bytes (allocation and time must grow about 8x, not 64x); (d) every byte string of length <=2 and every length-3 string over %d selected bytes; (e) every value slot of the grammar corpus replaced by a placeholder bound to each of %d adversarial values (and unbound / empty). Oracle: no panic; (result,nil) xor (nil,error); no read of an unfilled or overwritten pushback slot (hook); token reads <= 40*(runes+8) (hook budget, a deterministic stand-in for time proportional to the input); String() and Walk of a result do not panic. non-trivial = non-empty input", k, n, len(c04ladders), maxN, len(sel), len(c04params))
	r.Assumptions = []string{"random and coverage-guided generation named in the property's quantifier belong to another technique family and are not attempted", "linearity is measured in scanner calls, not wall-clock time"}
}
