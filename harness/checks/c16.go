package checks

import (
	"encoding/json"
	"fmt"
	"strings"

	"github.com/influxdata/influxql"

	"verif/harness/astx"
	"verif/harness/ev"
	"verif/harness/gram"
	"verif/harness/xplore"
)

// C16 — statement separation, whitespace and comments do not change meaning.

type c16sub struct {
	text  string
	class string
}

var c16subs = []c16sub{
	{strings.Repeat(" ", 33), "whitespace"}, {strings.Repeat(" \t\r\n", 17), "whitespace"}, {strings.Repeat("\n", 257), "whitespace"},
	{"\t", "whitespace"}, {"\n", "whitespace"}, {"\r", "whitespace"}, {"\r\n", "whitespace"}, {"  ", "whitespace"}, {" \t\r\n ", "whitespace"},
	{" /* a */ /* b */ ", "block-comment"}, {" -- a\n/* b */ ", "line-comment"}, {" /* a */\n-- b\n ", "block-comment"},
	{" -- c\n", "line-comment"}, {"\n--\n", "line-comment"}, {" -- ; \n", "line-comment"}, {" --c\r\n ", "line-comment"},
	{" /* c */ ", "block-comment"}, {" /**/ ", "block-comment"}, {" /* -- */ ", "block-comment"}, {" /* ' */ ", "block-comment"}, {" /* ; */ ", "block-comment"}, {"\n/* a\nb */\n", "block-comment"}, {" /*/ c */ ", "block-comment"}, {" /***/ ", "block-comment"}, {" /****/ ", "block-comment"}, {" /* c ***/ ", "block-comment"}, {" /*** c ***/ ", "block-comment"}, {" /*******/ ", "block-comment"},
	// what the comment says does not matter: a digit, a quote, the other comment opener or characters outside ASCII
	// (the replacement character included) directly after the opener or further in
	{" --1st\n", "line-comment"}, {" --2024-05-01 x\n", "line-comment"}, {" -- \ufffd tail\n", "line-comment"}, {" --é👍\n", "line-comment"}, {" --'\"/*\n", "line-comment"},
	{" /*1*/ ", "block-comment"}, {" /*" + strings.Repeat("x", 4200) + "*/ ", "block-comment"}, {" /*" + strings.Repeat("* ", 35000) + "*/ ", "block-comment"}, {" --" + strings.Repeat("y", 70000) + "\n", "line-comment"}, {" /* \ufffd tail */ ", "block-comment"}, {" /*é👍*/ ", "block-comment"}, {" /*'\"--*/ ", "block-comment"}, {" /*\xff*/ ", "block-comment"},
}

func tokClass(t gram.Tok) string {
	switch t.K {
	case gram.KW:
		return t.Text
	case gram.PUNCT:
		return "'" + t.Text + "'"
	case gram.IDENT, gram.RAWIDENT:
		return "ident"
	case gram.FUNC:
		return "func"
	case gram.STR:
		return "string"
	case gram.INT, gram.NUM:
		return "number"
	case gram.DUR:
		return "duration"
	case gram.REGEX:
		return "regex"
	}
	return "tok"
}

// c16gapBody: statement x gap x substitution.
func c16gapBody(c *xplore.Ctx) (text string, form string, fs []ev.Finding, skipped bool) {
	g := gram.New(c)
	g.NoValueAlts = true
	spec := gram.Statement(g)
	if g.InvalidWhy != "" {
		return "", spec.Form, nil, true
	}
	ps := gram.RenderPieces(nil, spec.Toks)
	// every gap where whitespace may stand: the ones that carry it in the default rendering and the optional ones
	// that are empty by convention (before ',' and ')', after '('): `a , b` is as legal as `a, b`
	var gaps []int
	for i := 1; i < len(ps); i++ {
		if ps[i].GapKind != gram.GapNone {
			gaps = append(gaps, i)
		}
	}
	base := gram.Join(ps)
	gi := c.Free(len(gaps) + 1)
	if gi == 0 {
		return base, spec.Form, nil, true // the base rendering itself is C01's business
	}
	si := c.Free(len(c16subs))
	at := gaps[gi-1]
	sub := c16subs[si]
	ps[at].Gap = sub.text
	text = gram.Join(ps)
	cs := vecCase{Vector: c.Vector()}
	rank := c.Cost(0)*1000 + len(text)
	baseAST, err := influxql.ParseStatement(base)
	if err != nil {
		return text, spec.Form, nil, true // base not accepted: C01 reports it
	}
	var got influxql.Statement
	if p, st := try(func() { got, err = influxql.ParseStatement(text) }); p != nil {
		return text, spec.Form, []ev.Finding{{Sig: "panic:ParseStatement", Witness: text, Detail: fmt.Sprint(p) + st, Case: cs, Rank: rank}}, false
	}
	where := fmt.Sprintf("%s|%s→%s", sub.class, tokClass(spec.Toks[at-1]), tokClass(spec.Toks[at]))
	if err != nil {
		return text, spec.Form, []ev.Finding{{Sig: "gap-not-neutral:rejected:" + ev.SigSafe(where), Witness: text,
			Detail: fmt.Sprintf("with the gap between %q and %q written as %q the statement is rejected: %v (base %q parses)", ps[at-1].Text, ps[at].Text, sub.text, err, base), Case: cs, Rank: rank}}, false
	}
	if path, a, b := astx.Diff(astx.Denoted, baseAST, got); path != "" {
		return text, spec.Form, []ev.Finding{{Sig: "gap-not-neutral:ast-changed:" + ev.SigSafe(where), Witness: text,
			Detail: fmt.Sprintf("gap %q between %q and %q changes the AST at %s: %s vs %s", sub.text, ps[at-1].Text, ps[at].Text, path, a, b), Case: cs, Rank: rank}}, false
	}
	return text, spec.Form, nil, false
}

var c16pairs = [][2]string{{"\r", "\n"}, {"\n", "\r"}, {"\r", " -- c\n"}, {"\r\n", "\r"}, {" -- c\r", "\n"}, {"\r", "\r\n"}}

// c16pairBody: statement x two gaps x a pair of fillers.
func c16pairBody(c *xplore.Ctx) (text string, form string, fs []ev.Finding, skipped bool) {
	g := gram.New(c)
	g.NoValueAlts = true
	spec := gram.Statement(g)
	if g.InvalidWhy != "" {
		return "", spec.Form, nil, true
	}
	ps := gram.RenderPieces(nil, spec.Toks)
	var gaps []int
	for i := 1; i < len(ps); i++ {
		if ps[i].GapKind != gram.GapNone {
			gaps = append(gaps, i)
		}
	}
	if len(gaps) < 2 {
		return "", spec.Form, nil, true
	}
	base := gram.Join(ps)
	gi := c.Free(len(gaps))
	gj := c.Free(len(gaps))
	if gj <= gi {
		return "", spec.Form, nil, true
	}
	pr := c16pairs[c.Free(len(c16pairs))]
	ps[gaps[gi]].Gap, ps[gaps[gj]].Gap = pr[0], pr[1]
	text = gram.Join(ps)
	cs := vecCase{Vector: c.Vector()}
	baseAST, err := influxql.ParseStatement(base)
	if err != nil {
		return text, spec.Form, nil, true
	}
	got, err := influxql.ParseStatement(text)
	where := fmt.Sprintf("%q+%q", pr[0], pr[1])
	if err != nil {
		return text, spec.Form, []ev.Finding{{Sig: "two-gaps-not-neutral:rejected:" + ev.SigSafe(where), Witness: text, Detail: fmt.Sprintf("rejected: %v (base %q parses)", err, base), Case: cs, Rank: len(text)}}, false
	}
	if path, a, b := astx.Diff(astx.Denoted, baseAST, got); path != "" {
		return text, spec.Form, []ev.Finding{{Sig: "two-gaps-not-neutral:ast-changed:" + ev.SigSafe(where), Witness: text, Detail: fmt.Sprintf("AST changes at %s: %s vs %s", path, a, b), Case: cs, Rank: len(text)}}, false
	}
	return text, spec.Form, nil, false
}

// ---- statement separation ----------------------------------------------------------------------------

var c16pool = []string{
	"SELECT a FROM m", "SHOW DATABASES", "DROP DATABASE d", "SELECT mean(x) FROM m WHERE t = 'a;b' GROUP BY time(1h)", "CREATE USER u WITH PASSWORD 'p;q'",
	"SHOW TAG VALUES WITH KEY = k", "DELETE FROM m", "SELECT /re;x/ FROM m", "GRANT ALL TO u", "KILL QUERY 3", "SELECT \"a;b\" FROM m", "SHOW MEASUREMENTS LIMIT 1",
}
var c16goodSeps = []string{";", " ; ", ";\n", ";;", "; ;", ";--c\n", "; /*c*/ ", "\n;\r\n"}
var c16badSeps = []string{" ", "\n", " /*c*/ ", " --c\n"}
var c16lead = []string{"", ";", " ; ", "-- c\n", "/* c */"}
var c16trail = []string{"", ";", " ;; ", "\n", " -- c", ";/* c */"}

type c16qCase struct {
	Stmts []int `json:"stmts"`
	Seps  []int `json:"seps"` // index into good+bad
	Lead  int   `json:"lead"`
	Trail int   `json:"trail"`
}

func c16sep(i int) (string, bool) {
	if i < len(c16goodSeps) {
		return c16goodSeps[i], true
	}
	return c16badSeps[i-len(c16goodSeps)], false
}

func (c c16qCase) text() (string, bool) {
	var b strings.Builder
	b.WriteString(c16lead[c.Lead])
	ok := true
	for i, s := range c.Stmts {
		if i > 0 {
			sp, good := c16sep(c.Seps[i-1])
			ok = ok && good
			b.WriteString(sp)
		}
		b.WriteString(c16pool[s])
	}
	b.WriteString(c16trail[c.Trail])
	return b.String(), ok
}

func c16queryEval(c c16qCase) []ev.Finding {
	text, wantOK := c.text()
	var q *influxql.Query
	var err error
	if p, st := try(func() { q, err = influxql.ParseQuery(text) }); p != nil {
		return []ev.Finding{{Sig: "panic:ParseQuery", Witness: text, Detail: fmt.Sprint(p) + st, Case: c}}
	}
	rank := len(text)
	if !wantOK {
		if err == nil {
			return []ev.Finding{{Sig: "missing-separator-accepted", Witness: text, Detail: fmt.Sprintf("two statements without a semicolon between them parse to %d statements", len(q.Statements)), Case: c, Rank: rank}}
		}
		return nil
	}
	if err != nil {
		return []ev.Finding{{Sig: "query-rejected:" + ev.SigSafe(errClass(err.Error())), Witness: text, Detail: err.Error(), Case: c, Rank: rank}}
	}
	if len(q.Statements) != len(c.Stmts) {
		return []ev.Finding{{Sig: "statement-count", Witness: text, Detail: fmt.Sprintf("%d statements, want %d", len(q.Statements), len(c.Stmts)), Case: c, Rank: rank}}
	}
	for i, s := range c.Stmts {
		alone, err := influxql.ParseStatement(c16pool[s])
		if err != nil {
			return []ev.Finding{{Sig: "generator:rejected", Witness: c16pool[s], Detail: err.Error(), Case: c}}
		}
		if path, a, b := astx.Diff(astx.Denoted, alone, q.Statements[i]); path != "" {
			return []ev.Finding{{Sig: "statement-differs-from-alone", Witness: text, Detail: fmt.Sprintf("statement %d differs at %s: %s vs %s", i, path, a, b), Case: c, Rank: rank}}
		}
	}
	return nil
}

// c16joinEval: a query made of the given statements (each accepted alone) must parse to exactly those statements.
type c16joinCase struct {
	Query string   `json:"query"`
	Parts []string `json:"parts"`
}

func c16joinEval(c c16joinCase) []ev.Finding {
	var want []influxql.Statement
	for _, p := range c.Parts {
		st, err := influxql.ParseStatement(p)
		if err != nil {
			return nil
		}
		want = append(want, st)
	}
	var got *influxql.Query
	var err error
	if p, st := try(func() { got, err = influxql.ParseQuery(c.Query) }); p != nil {
		return []ev.Finding{{Sig: "panic:ParseQuery", Witness: c.Query, Detail: fmt.Sprint(p) + st, Case: c, Rank: len(c.Query)}}
	}
	if err != nil {
		return []ev.Finding{{Sig: "query-rejected:" + ev.SigSafe(errClass(err.Error())), Witness: c.Query, Detail: err.Error(), Case: c, Rank: len(c.Query)}}
	}
	if len(got.Statements) != len(want) {
		return []ev.Finding{{Sig: "statement-count", Witness: c.Query, Detail: fmt.Sprintf("%d statements, want %d", len(got.Statements), len(want)), Case: c, Rank: len(c.Query)}}
	}
	var out []ev.Finding
	for k := range want {
		if path, a, b := astx.Diff(astx.Denoted, want[k], got.Statements[k]); path != "" {
			out = append(out, ev.Finding{Sig: "statement-differs-from-alone", Witness: c.Query, Detail: fmt.Sprintf("statement %d differs at %s: %s vs %s", k, path, a, b), Case: c, Rank: len(c.Query)})
		}
	}
	return out
}

// ---- many statements, and a query after a query that failed ------------------------------------------------------------

// c16longPool: the pool plus statements with calls without arguments, signs and groups (whatever a parser counts per
// statement has to be given back at its end).
var c16longPool = append(append([]string{}, c16pool...), "SELECT a FROM m WHERE time > now() - 1h", "SELECT count(x), f() FROM m WHERE (a = 1) AND -(b) < 2", "DELETE FROM m WHERE time < now()")

type c16longCase struct {
	Long int `json:"long"`           // number of statements, taken round-robin from c16longPool
	Sep  int `json:"sep"`            // index into c16goodSeps
	Only int `json:"only,omitempty"` // k > 0: every statement is c16longPool[len-k] (the statements with calls and groups)
}

func c16longEval(c c16longCase) []ev.Finding {
	var parts []string
	for i := 0; i < c.Long; i++ {
		if c.Only > 0 {
			parts = append(parts, c16longPool[len(c16longPool)-c.Only])
		} else {
			parts = append(parts, c16longPool[i%len(c16longPool)])
		}
	}
	fs := c16joinEval(c16joinCase{Query: strings.Join(parts, c16goodSeps[c.Sep]), Parts: parts})
	for i := range fs {
		fs[i].Case = c
		fs[i].Witness = fmt.Sprintf("%d statements joined by %q", c.Long, c16goodSeps[c.Sep])
		fs[i].Sig = "long-query:" + fs[i].Sig
		if len(fs[i].Detail) > 400 {
			fs[i].Detail = fs[i].Detail[:400]
		}
	}
	return fs
}

// c16failing: texts that the parser rejects, for different reasons and at different points: a missing operand, a
// missing separator, and statements that are complete but rejected by a check made after the last token was looked at.
var c16failing = []string{"DELETE", "SELECT", "SELECT a FROM", "SELECT a FROM m ORDER BY a", "SELECT a FROM m tz('nowhere')", "SELECT a FROM m fill(1)",
	"CREATE CONTINUOUS QUERY cq ON d BEGIN SELECT mean(x) INTO t FROM m END", "SELECT a = 1 FROM m", "SELECT a FROM m SHOW DATABASES", "SELECT a FROM m WHERE", "SELECT a FROM m;;;x", "SHOW TAG VALUES WITH KEY =", "'"}

type c16afterCase struct {
	After int   `json:"after"` // index into c16failing: the query parsed just before
	Good  []int `json:"good"`  // pool indices of the query under test
}

// c16afterEval: the package-level ParseQuery is a function of its argument. It is called with a text it rejects and
// then, several times, with a good query; every answer must be the good query's statements as fresh parsers read them.
func c16afterEval(c c16afterCase) []ev.Finding {
	var parts []string
	var want []influxql.Statement
	for _, i := range c.Good {
		if i < 0 || i >= len(c16pool) {
			return nil
		}
		st, err := influxql.NewParser(strings.NewReader(c16pool[i])).ParseStatement()
		if err != nil {
			return nil
		}
		parts = append(parts, c16pool[i])
		want = append(want, st)
	}
	good := strings.Join(parts, "; ")
	wit := fmt.Sprintf("ParseQuery(%q) and then ParseQuery(%q)", c16failing[c.After], good)
	for round := 0; round < 4; round++ {
		var q *influxql.Query
		var err error
		if p, st := try(func() {
			_, _ = influxql.ParseQuery(c16failing[c.After])
			q, err = influxql.ParseQuery(good)
		}); p != nil {
			return []ev.Finding{{Sig: "panic:ParseQuery", Witness: wit, Detail: fmt.Sprint(p) + st, Case: c, Rank: len(good)}}
		}
		bad := ""
		switch {
		case err != nil:
			bad = "rejected: " + err.Error()
		case len(q.Statements) != len(want):
			bad = fmt.Sprintf("%d statements, want %d", len(q.Statements), len(want))
		default:
			for k := range want {
				if path, a, b := astx.Diff(astx.Denoted, want[k], q.Statements[k]); path != "" {
					bad = fmt.Sprintf("statement %d differs at %s: %s vs %s", k, path, a, b)
					break
				}
			}
		}
		if bad != "" {
			return []ev.Finding{{Sig: "query-depends-on-the-call-before", Witness: wit, Detail: fmt.Sprintf("round %d: %s", round, bad), Case: c, Rank: len(good)}}
		}
	}
	return nil
}

func init() {
	register(&Check{ID: "C16", Run: c16run, Replay: func(raw json.RawMessage) []ev.Finding {
		var probe map[string]json.RawMessage
		if json.Unmarshal(raw, &probe) != nil {
			return nil
		}
		if _, ok := probe["long"]; ok {
			var c c16longCase
			json.Unmarshal(raw, &c)
			return c16longEval(c)
		}
		if _, ok := probe["after"]; ok {
			var c c16afterCase
			json.Unmarshal(raw, &c)
			return c16afterEval(c)
		}
		if _, ok := probe["query"]; ok {
			var c c16joinCase
			json.Unmarshal(raw, &c)
			return c16joinEval(c)
		}
		if _, ok := probe["stmts"]; ok {
			var c c16qCase
			json.Unmarshal(raw, &c)
			return c16queryEval(c)
		}
		var c vecCase
		json.Unmarshal(raw, &c)
		var out []ev.Finding
		for _, body := range []func(*xplore.Ctx) (string, string, []ev.Finding, bool){c16gapBody, c16pairBody} {
			func() {
				defer func() { recover() }()
				xplore.Replay(func(x *xplore.Ctx) { _, _, f, _ := body(x); out = append(out, f...) }, c.Vector)
			}()
		}
		return out
	}})
}

func c16run(r *ev.Run) {
	sets := []boundSet{{"struct<=2 x every gap that may hold whitespace x 28 substitutions", []int{2, 0, 0}}}
	if thorough(r) {
		sets = []boundSet{{"struct<=3 x every gap that may hold whitespace x 28 substitutions", []int{3, 0, 0}}}
	}
	runGrammar(r, sets, c16gapBody)
	// many statements in one query, and a good query after each kind of failing one (sequential: one caller)
	for _, n := range []int{40, 400, 1200, 5000} {
		for sp := range c16goodSeps {
			for only := 0; only <= 3; only++ {
				if only > 0 && sp > 1 {
					continue
				}
				c := c16longCase{Long: n, Sep: sp, Only: only}
				r.Eval()
				r.State(astx.HashString(fmt.Sprint("LQ|", c)), true)
				for _, f := range c16longEval(c) {
					r.Report(f)
				}
			}
		}
	}
	for a := range c16failing {
		for g1 := range c16pool {
			for _, good := range [][]int{{g1}, {g1, (g1 + 1) % len(c16pool)}} {
				c := c16afterCase{After: a, Good: good}
				r.Eval()
				r.State(astx.HashString(fmt.Sprint("AF|", c)), true)
				for _, f := range c16afterEval(c) {
					r.Report(f)
				}
			}
		}
	}
	r.Set("failing_texts_in_front", len(c16failing))
	// statement separation
	nsep := len(c16goodSeps) + len(c16badSeps)
	runQ := func(c c16qCase) {
		n := r.Eval()
		t, _ := c.text()
		r.Trans(int64(len(c.Stmts)))
		r.State(astx.HashString("Q|"+t), len(c.Stmts) > 1)
		r.Sample(n, func() interface{} { return t })
		for _, f := range c16queryEval(c) {
			r.Report(f)
		}
	}
	np := len(c16pool)
	for l := range c16lead {
		for t := range c16trail {
			for a := 0; a < np; a++ {
				runQ(c16qCase{Stmts: []int{a}, Lead: l, Trail: t})
			}
		}
	}
	parallelFor(np*np, func(i int) {
		a, b := i/np, i%np
		for s := 0; s < nsep; s++ {
			for l := range c16lead {
				for t := range c16trail {
					runQ(c16qCase{Stmts: []int{a, b}, Seps: []int{s}, Lead: l, Trail: t})
				}
			}
		}
	})
	p3 := 5
	if thorough(r) {
		p3 = 8
	}
	parallelFor(p3*p3*p3, func(i int) {
		a, b, c := i/(p3*p3), (i/p3)%p3, i%p3
		for s1 := 0; s1 < nsep; s1++ {
			for s2 := 0; s2 < nsep; s2++ {
				for _, lt := range [][2]int{{0, 0}, {1, 1}, {3, 4}} {
					runQ(c16qCase{Stmts: []int{a, b, c}, Seps: []int{s1, s2}, Lead: lt[0], Trail: lt[1]})
				}
			}
		}
	})
	// a line break written as a lone CR at one gap together with LF (or a line comment) at a later gap, and the reverse
	runGrammar(r, []boundSet{{"struct<=1 x every pair of gaps x {CR then LF, LF then CR, CR then line comment, CRLF then CR}", []int{1, 0, 0}}}, c16pairBody)
	// every statement form of the grammar model (within one deviation) joined to itself and to a SELECT with the plain separators
	var poolMu syncMutex
	pool2 := map[string]bool{}
	ex := &xplore.Explorer{Bounds: []int{1, 0, 1}, Workers: r.Workers, Deadline: deadlineFor(r.Tier), Body: func(c *xplore.Ctx) {
		g := gram.New(c)
		spec := gram.Statement(g)
		if g.InvalidWhy != "" {
			return
		}
		t := gram.Render(nil, spec.Toks)
		poolMu.Lock()
		pool2[t] = true
		poolMu.Unlock()
	}}
	ex.Run()
	var texts []string
	for t := range pool2 {
		texts = append(texts, t)
	}
	sortStrings(texts)
	parallelFor(len(texts), func(i int) {
		t := texts[i]
		if _, err := influxql.ParseStatement(t); err != nil {
			return
		}
		other := "SELECT a FROM m"
		nb := texts[(i+1)%len(texts)] // its neighbour in the pool: usually the same form with other values
		for _, c := range []c16joinCase{
			{t, []string{t}}, {t + ";", []string{t}}, {t + " ;", []string{t}}, {";" + t, []string{t}},
			{t + ";" + other, []string{t, other}}, {other + ";" + t, []string{other, t}}, {t + "; " + t, []string{t, t}},
			{t + "\n;\n" + other + ";", []string{t, other}}, {t + ";" + nb, []string{t, nb}},
		} {
			if _, err := influxql.ParseStatement(c.Parts[len(c.Parts)-1]); err != nil {
				continue
			}
			n := r.Eval()
			r.Trans(int64(len(c.Parts)))
			r.State(astx.HashString("Q2|"+c.Query), len(c.Parts) > 1)
			r.Sample(n, func() interface{} { return c.Query })
			for _, f := range c16joinEval(c) {
				r.Report(f)
			}
		}
	})
	r.Set("grammar_pool_for_separation", len(texts))
	r.Set("substitutions", len(c16subs))
	r.Set("query_pool", np)
	r.Set("separator_forms", nsep)
	r.Rule = "(a) every statement of the grammar model within the structural bound, in its default rendering, x every gap that carries whitespace x each of 16 substitutions (6 whitespace forms, 4 line-comment forms, 6 block-comment forms): the variant must parse to the AST of the base rendering; (b) ParseQuery on every join of 1-3 pool statements with every separator form (8 with a semicolon, 4 without), leading and trailing forms: result = the statements parsed alone, in order; no semicolon = error. state = distinct text; non-trivial = variant parsed / query has more than one statement"
}
