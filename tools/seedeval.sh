#!/bin/sh
# usage: seedeval.sh <seed dir with patch.diff + demo_test.go> <property id> [tier]
# 1. confirms in a scratch worktree that the patch compiles, the repository's suite still passes with it, and the
#    demonstration fails with it and passes without it;
# 2. applies it to /repo, runs the owning check, undoes it. Prints one summary line.
export GOFLAGS=-mod=mod GOPROXY=off GOSUMDB=off GOTOOLCHAIN=local
export VERIF_EVIDENCE_DIR=/tmp/verif-seed-evidence
D=$1; ID=$2; TIER=${3:-quick}
WT=$(mktemp -d /tmp/seedeval.XXXXXX)
git -C /repo worktree add -q --detach "$WT/wt" HEAD || { echo "$D: cannot create worktree"; exit 2; }
cd "$WT/wt"
res=""
if ! git apply --check "$D/patch.diff" 2>/dev/null; then res="patch-does-not-apply"; fi
if [ -z "$res" ]; then
  git apply "$D/patch.diff"
  if ! go build ./... >/dev/null 2>&1; then res="does-not-compile"; fi
fi
if [ -z "$res" ]; then
  if ! go test -vet=off -count=1 ./... > "$WT/suite.log" 2>&1; then res="suite-fails-with-patch"; fi
fi
if [ -z "$res" ]; then
  cp "$D/demo_test.go" seed_demo_test.go
  if go test -vet=off -count=1 -run 'TestSeed' . > "$WT/demo_patched.log" 2>&1; then
     if go test -race -vet=off -count=1 -run 'TestSeed' . > "$WT/demo_patched.log" 2>&1; then res="demo-passes-with-patch"; fi
  fi
fi
if [ -z "$res" ]; then
  git checkout -q -- . 2>/dev/null; git apply -R "$D/patch.diff" 2>/dev/null
  git checkout -q -- $(git diff --name-only) 2>/dev/null
  if ! go test -race -vet=off -count=1 -run 'TestSeed' . > "$WT/demo_clean.log" 2>&1; then res="demo-fails-on-clean-tree"; fi
fi
cd /; git -C /repo worktree remove --force "$WT/wt"; 
if [ -n "$res" ]; then echo "SEED $ID $D: INVALID ($res)"; rm -rf "$WT"; exit 3; fi
# run the owning check against /repo with the patch applied
if ! git -C /repo diff --quiet; then echo "SEED $ID $D: /repo is dirty, refusing"; rm -rf "$WT"; exit 2; fi
git -C /repo apply "$D/patch.diff"
(cd /verif && ./check $ID $TIER > "$WT/check.log" 2>&1); rc=$?
git -C /repo checkout -- .
nv=$(grep -c '^VIOLATION' "$WT/check.log")
first=$(grep -A1 '^VIOLATION' "$WT/check.log" | grep 'sig=' | head -2 | tr '\n' ' ' | cut -c1-200)
echo "SEED $ID $D: valid; check rc=$rc violations=$nv $first"
mkdir -p "$D/eval"; cp "$WT/check.log" "$D/eval/check_$TIER.log"
rm -rf "$WT"
exit 0
