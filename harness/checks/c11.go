package checks

import (
	"encoding/json"
	"fmt"
	"regexp"
	"strings"
	"sync"
	"sync/atomic"

	"github.com/influxdata/influxql"

	"verif/harness/astx"
	"verif/harness/ev"
)

// C11 — regex-to-literal rewriting preserves which strings match.

var c11atoms = []string{
	"a", "b", "ab", "x", "A", ".", "[ab]", "[a-c]", "[^a]", `\d`, "(a)", "(?:a)", "(a|b)", "a|b", "(ab|c)", "(a|)",
	"a?", "a*", "a+", "a{2}", "a{1,2}", "a{0}", `[^\s\S]`, "()", `\b`, "[ab]{2}", "(?i)a", "(?i:a)", "(?i)[a]", `\.`, `\|`, "", "[a]", "[aA]", `\n`, "a/b", `\x61`, "[ab][bc]",
	// the 100-literal limit from both sides: [a-j][a-j] is exactly 100 strings, [a-k][a-j] is 110, ([a-j][a-j]|x) is 101
	"[a-j]", "[a-k]", "[a-j][a-j]", "|x",
	// members outside ASCII (a class is expanded rune by rune, not byte by byte)
	"[aé]", "é", "[à-ã]",
	// a one-valued part that the regex parser does not fuse with its neighbour, between other parts; classes of
	// several ranges
	"(b)[ab]", "b{2}[ab]", "[ac]", "[0-2a-b]",
	// the open-ended brace form of a repetition, and small negated classes that contain the newline
	"a{2,}", "[ab]{1,}", `[^\S]`, `[^\x00-\x08\x0b-\x{10FFFF}]`,
}

// contexts wrap a body; %s is the body
var c11ctx = []string{
	"^%s$", `\A%s\z`, "^%s", "%s$", "%s", "(?m)^%s$", "(?s)^%s$", "(?U)^%s$", "^(%s)$", "^%s$|x", "^^%s$", "^(?:%s)$",
	"(?i)^%s$", `^%s\n$`, "(?m:^%s$)", `^%s\z`, `\A%s$`, "^(?m:%s)$", "(?m)^%s", "^%s$$", "^%s(?m:$)", "(?m:^)%s$",
}

// wrappers place the regex condition inside a larger condition
var c11wrapN = 7
var c11both int64 // cases in which the test on the other tag was rewritten too

type c11Case struct {
	Atoms []int `json:"atoms"`
	Ctx   int   `json:"ctx"`
	Neg   bool  `json:"neg"`  // !~ instead of =~
	Wrap  int   `json:"wrap"` // 0 alone, 1 cond AND k='v', 2 k='w' OR cond, 3 (cond), 4 cond AND cond
	L     int   `json:"l"`    // candidate strings up to this length
}

func (c c11Case) source() string {
	var b strings.Builder
	for _, a := range c.Atoms {
		b.WriteString(c11atoms[a])
	}
	return fmt.Sprintf(c11ctx[c.Ctx], b.String())
}

func (c c11Case) cond(re *regexp.Regexp) influxql.Expr {
	op := influxql.EQREGEX
	if c.Neg {
		op = influxql.NEQREGEX
	}
	mk := func() influxql.Expr {
		return &influxql.BinaryExpr{Op: op, LHS: &influxql.VarRef{Val: "h"}, RHS: &influxql.RegexLiteral{Val: re}}
	}
	kv := func(v string) influxql.Expr {
		return &influxql.BinaryExpr{Op: influxql.EQ, LHS: &influxql.VarRef{Val: "k"}, RHS: &influxql.StringLiteral{Val: v}}
	}
	switch c.Wrap {
	case 1:
		return &influxql.BinaryExpr{Op: influxql.AND, LHS: mk(), RHS: kv("v")}
	case 2:
		return &influxql.BinaryExpr{Op: influxql.OR, LHS: kv("w"), RHS: mk()}
	case 3:
		return &influxql.ParenExpr{Expr: mk()}
	case 4:
		return &influxql.BinaryExpr{Op: influxql.AND, LHS: mk(), RHS: &influxql.ParenExpr{Expr: mk()}}
	case 5, 6:
		// a rewritable test with the *other* operator on another tag, before (5) or after (6) the tested one
		other := influxql.NEQREGEX
		if c.Neg {
			other = influxql.EQREGEX
		}
		o := &influxql.BinaryExpr{Op: other, LHS: &influxql.VarRef{Val: "k"}, RHS: &influxql.RegexLiteral{Val: regexp.MustCompile("^(w|y)$")}}
		if c.Wrap == 5 {
			return &influxql.BinaryExpr{Op: influxql.AND, LHS: o, RHS: mk()}
		}
		return &influxql.BinaryExpr{Op: influxql.AND, LHS: mk(), RHS: o}
	}
	return mk()
}

var c11alpha = []string{"a", "b", "c", "A", "\n", "x"}

// c11extraAlpha: further letters tried as single strings and as neighbours of the substituted literals.
var c11extraAlpha = []string{"é", "à", "á", "â", "ã", "ä", "\xc3", "e"}

var c11strings = func() [][]string {
	out := [][]string{{""}}
	all := []string{""}
	prev := []string{""}
	for l := 1; l <= 5; l++ {
		var cur []string
		for _, p := range prev {
			for _, a := range c11alpha {
				cur = append(cur, p+a)
			}
		}
		all = append(all, cur...)
		cp := make([]string, len(all))
		copy(cp, all)
		out = append(out, cp)
		prev = cur
	}
	return out
}()

func collectStrings(e influxql.Expr, skipVal string) []string {
	var out []string
	influxql.WalkFunc(e, func(n influxql.Node) {
		if s, ok := n.(*influxql.StringLiteral); ok && s.Val != skipVal {
			out = append(out, s.Val)
		}
	})
	return out
}

// c11eval returns findings and whether the condition was rewritten.
func c11eval(c c11Case) ([]ev.Finding, bool, bool) {
	src := c.source()
	re, err := regexp.Compile(src)
	if err != nil {
		return nil, false, false
	}
	wit := fmt.Sprintf("h %s /%s/ [wrap %d]", map[bool]string{false: "=~", true: "!~"}[c.Neg], strings.ReplaceAll(src, "\n", `\n`), c.Wrap)
	orig := c.cond(re)
	stmt := &influxql.SelectStatement{Condition: c.cond(re)}
	if p, st := try(func() { stmt.RewriteRegexConditions() }); p != nil {
		return []ev.Finding{{Sig: "panic:RewriteRegexConditions", Witness: wit, Detail: fmt.Sprint(p) + st, Case: c}}, false, true
	}
	if astx.Equal(astx.Full, orig, stmt.Condition) {
		return nil, false, true
	}
	var out []ev.Finding
	// the literals that were substituted
	lits := collectStrings(stmt.Condition, "")
	if c.Wrap >= 5 && strings.Contains(stmt.Condition.String(), "'y'") {
		atomic.AddInt64(&c11both, 1)
	}
	var subst []string
	for _, l := range lits {
		if (c.Wrap == 1 && l == "v") || (c.Wrap == 2 && l == "w") || (c.Wrap >= 5 && (l == "w" || l == "y")) {
			continue
		}
		subst = append(subst, l)
	}
	full, ferr := regexp.Compile(`\A(?:` + src + `)\z`)
	if ferr == nil {
		for _, l := range subst {
			if !full.MatchString(l) {
				out = append(out, ev.Finding{Sig: "literal-not-in-language:ctx=" + ev.SigSafe(c11ctx[c.Ctx]), Witness: wit, Detail: fmt.Sprintf("substituted literal %q is not matched in full by the regex; rewritten: %s", l, stmt.Condition), Case: c, Rank: len(src)})
				break
			}
		}
	}
	perCond := len(subst)
	if c.Wrap == 4 {
		perCond /= 2
	}
	if perCond > 100 {
		out = append(out, ev.Finding{Sig: "more-than-100-literals", Witness: wit, Detail: fmt.Sprintf("%d literals substituted", perCond), Case: c, Rank: len(src)})
	}
	cands := c11strings[c.L]
	extra := []string{}
	if strings.Contains(src, "[a-j]") || strings.Contains(src, "[a-k]") {
		// the wide classes reach beyond the candidate alphabet: every string of length <= 2 over a..l
		for x := 'a'; x <= 'l'; x++ {
			extra = append(extra, string(x))
			for y := 'a'; y <= 'l'; y++ {
				extra = append(extra, string([]rune{x, y}))
			}
		}
	}
	for _, l := range subst {
		extra = append(extra, l, l+"x", "x"+l, "x\n"+l, l+"\nx", l+"\n")
	}
	if strings.ContainsAny(src, "éàã") {
		for _, x := range c11extraAlpha {
			extra = append(extra, x, "a"+x, x+"a")
			for _, y := range c11extraAlpha {
				extra = append(extra, x+y)
			}
		}
	}
	check := func(s string) bool {
		for _, kv := range []string{"v", "w"} {
			m := map[string]interface{}{"h": s, "k": kv}
			a := influxql.EvalBool(orig, m)
			b := influxql.EvalBool(stmt.Condition, m)
			if a != b {
				cause := "ctx=" + ev.SigSafe(c11ctx[c.Ctx])
				out = append(out, ev.Finding{Sig: "match-set-changed:" + cause, Witness: wit,
					Detail: fmt.Sprintf("for h = %q, k = %q the original condition is %v, the rewritten one (%s) is %v", s, kv, a, stmt.Condition, b), Case: c, Rank: len(src)*10 + len(s)})
				return false
			}
		}
		return true
	}
	for _, s := range cands {
		if !check(s) {
			return out, true, true
		}
	}
	for _, s := range extra {
		if !check(s) {
			return out, true, true
		}
	}
	return out, true, true
}

func init() {
	register(&Check{ID: "C11", Run: c11run, Replay: func(raw json.RawMessage) []ev.Finding {
		var c c11Case
		if json.Unmarshal(raw, &c) != nil {
			return nil
		}
		f, _, _ := c11eval(c)
		return f
	}})
}

func c11run(r *ev.Run) {
	th := thorough(r)
	na := len(c11atoms)
	var rewritten, valid int64
	var mu sync.Mutex
	run := func(c c11Case) {
		fs, rw, ok := c11eval(c)
		if !ok {
			return // not a valid regex: not part of the space
		}
		n := r.Eval()
		r.Trans(int64(len(c.Atoms)) + 2)
		if rw {
			r.Trans(int64(len(c11strings[c.L])))
		}
		mu.Lock()
		valid++
		if rw {
			rewritten++
		}
		mu.Unlock()
		r.State(astx.HashString(fmt.Sprintf("%s|%v|%d", c.source(), c.Neg, c.Wrap)), rw)
		r.Sample(n, func() interface{} {
			return fmt.Sprintf("h %s /%s/ wrap=%d rewritten=%v", map[bool]string{false: "=~", true: "!~"}[c.Neg], c.source(), c.Wrap, rw)
		})
		for _, f := range fs {
			r.Report(f)
		}
	}
	L2 := 4
	if th {
		L2 = 5
	}
	// <= 2 atoms: all contexts, both operators, all wrappers
	total := na + na*na
	parallelFor(total, func(i int) {
		var atoms []int
		if i < na {
			atoms = []int{i}
		} else {
			j := i - na
			atoms = []int{j / na, j % na}
		}
		for ctx := range c11ctx {
			// the wrappers vary where the test sits in the condition, which the rewrite visits node by node whatever the
			// regex is: the quick tier combines them with five representative contexts, the thorough tier with all
			wraps := c11wrapN
			if !th && !(ctx == 0 || ctx == 1 || ctx == 4 || ctx == 5 || ctx == 8) {
				wraps = 1
			}
			for _, neg := range []bool{false, true} {
				for w := 0; w < wraps; w++ {
					run(c11Case{Atoms: atoms, Ctx: ctx, Neg: neg, Wrap: w, L: L2})
				}
			}
		}
	})
	if th {
		parallelFor(na*na*na, func(i int) {
			atoms := []int{i / (na * na), (i / na) % na, i % na}
			for ctx := range c11ctx {
				for _, neg := range []bool{false, true} {
					run(c11Case{Atoms: atoms, Ctx: ctx, Neg: neg, Wrap: 0, L: 4})
				}
			}
		})
	}
	r.Set("mixed_operator_cases_with_both_tests_rewritten", atomic.LoadInt64(&c11both))
	r.Set("atoms", na)
	r.Set("contexts", len(c11ctx))
	r.Set("valid_regex_conditions", valid)
	r.Set("conditions_rewritten", rewritten)
	r.Set("candidate_strings_per_rewritten_condition", len(c11strings[L2]))
	r.Rule = fmt.Sprintf("regex = concatenation of <=2 (thorough: <=3) atoms from %d inside each of %d anchor/flag contexts, both operators, 7 condition wrappers (quick tier: all 7 with five of the contexts, the bare test with the others); each rewritten condition is evaluated before/after on every string of length <=%d over {a,b,c,A,\\n,x} plus every substituted literal and its neighbours. state = (regex, operator, wrapper); non-trivial = RewriteRegexConditions changed the condition", na, len(c11ctx), L2)
	r.Assumptions = []string{"Go's regexp is the matcher on both sides (the rewrite is compared with the regex it replaces, not with a third implementation)"}
}
