// vinstr instruments the influxql package for the C17 schedule explorer.
//
// It loads the package from its directory with full type information, rewrites every read and write of
// state that can be shared between goroutines (package-level variables, struct fields, slice and array
// elements, pointer targets, maps, append/copy/delete targets) into calls of a tiny runtime, redirects the
// imports of sync and sync/atomic to shims whose operations are scheduling points, and writes the rewritten
// files plus a go build -overlay file. /repo is not modified.
//
// usage: vinstr -dir /repo -out <scratch dir>
package main

import (
	"bytes"
	"encoding/json"
	"flag"
	"fmt"
	"go/ast"
	"go/format"
	"go/token"
	"go/types"
	"os"
	"path/filepath"
	"sort"
	"strconv"
	"strings"

	"golang.org/x/tools/go/ast/astutil"
	"golang.org/x/tools/go/packages"
)

const rtPath = "github.com/influxdata/influxql/verifrt"

type action int

const (
	actNone       action = iota
	actReadAddr          // e            -> (*verifrt.R(&e, site))
	actWriteAddr         // e (as LHS)   -> (*verifrt.W(&e, site))
	actReadMapX          // m[k]         -> verifrt.RMap(m, site)[k]        (X of the IndexExpr is wrapped)
	actWriteMapX         // m[k] = v     -> verifrt.WMap(m, site)[k] = v
	actReadStarX         // *p           -> *verifrt.R(p, site)
	actWriteStarX        // *p = v       -> *verifrt.W(p, site) = v
	actRangeSlice        // range s      -> range verifrt.RSliceAll(s, site)
	actRangeMap          // range m      -> range verifrt.RMap(m, site)
	actAppendArg         // append(a, …) -> append(verifrt.WAppend(a, site), …)
	actCopyDst           // copy(d, s)   -> copy(verifrt.WSliceAll(d, site), verifrt.RSliceAll(s, site))
	actCopySrc
	actDeleteMap // delete(m, k) -> delete(verifrt.WMap(m, site), k)
	actExtRead   // f(s) with f outside the package, s a slice -> f(verifrt.RSliceAll(s, site))
	actExtWrite  // sort.X(s)                                   -> sort.X(verifrt.WSliceAll(s, site))
)

type site struct {
	ID   int    `json:"id"`
	Pos  string `json:"pos"`
	Kind string `json:"kind"`
	Expr string `json:"expr"`
}

type instr struct {
	pkg     *packages.Package
	info    *types.Info
	fset    *token.FileSet
	acts    map[ast.Node]action
	sites   []site
	skipped []site
	noRead  map[ast.Node]bool // operands of &, ++/--, assignment and range targets: not a read of the whole expression
}

func (in *instr) exprString(e ast.Node) string {
	var b bytes.Buffer
	format.Node(&b, in.fset, e)
	s := b.String()
	if len(s) > 60 {
		s = s[:60] + "…"
	}
	return s
}

func (in *instr) newSite(n ast.Node, kind string) int {
	id := len(in.sites)
	in.sites = append(in.sites, site{ID: id, Pos: in.fset.Position(n.Pos()).String(), Kind: kind, Expr: in.exprString(n)})
	return id
}

func (in *instr) isPkgVar(id *ast.Ident) bool {
	obj, ok := in.info.Uses[id].(*types.Var)
	return ok && !obj.IsField() && obj.Parent() == in.pkg.Types.Scope()
}

func (in *instr) typeOf(e ast.Expr) types.Type {
	if tv, ok := in.info.Types[e]; ok {
		return tv.Type
	}
	return nil
}

// addressable follows the language specification.
func (in *instr) addressable(e ast.Expr) bool {
	switch e := e.(type) {
	case *ast.Ident:
		_, ok := in.info.Uses[e].(*types.Var)
		return ok
	case *ast.ParenExpr:
		return in.addressable(e.X)
	case *ast.StarExpr:
		return true
	case *ast.IndexExpr:
		t := in.typeOf(e.X)
		if t == nil {
			return false
		}
		switch u := t.Underlying().(type) {
		case *types.Slice:
			return true
		case *types.Array:
			return in.addressable(e.X)
		case *types.Pointer:
			_, isArr := u.Elem().Underlying().(*types.Array)
			return isArr
		}
		return false
	case *ast.SelectorExpr:
		sel := in.info.Selections[e]
		if sel == nil || sel.Kind() != types.FieldVal {
			return false
		}
		return sel.Indirect() || in.addressable(e.X)
	}
	return false
}

// sideEffectFree: taking the address of e must not duplicate or reorder visible effects.
func sideEffectFree(e ast.Expr) bool {
	ok := true
	ast.Inspect(e, func(n ast.Node) bool {
		switch x := n.(type) {
		case *ast.CallExpr:
			if id, isId := x.Fun.(*ast.Ident); isId && (id.Name == "len" || id.Name == "cap") {
				return true
			}
			ok = false
		case *ast.FuncLit:
			ok = false
		case *ast.UnaryExpr:
			if n.(*ast.UnaryExpr).Op == token.ARROW {
				ok = false
			}
		}
		return ok
	})
	return ok
}

// classifyRead decides how an rvalue expression is instrumented.
func (in *instr) classifyRead(e ast.Expr) action {
	if in.noRead[e] {
		return actNone
	}
	tv, ok := in.info.Types[e]
	if ok && (!tv.IsValue() || tv.Value != nil) { // types, constants
		return actNone
	}
	switch e := e.(type) {
	case *ast.Ident:
		if in.isPkgVar(e) {
			return actReadAddr
		}
	case *ast.SelectorExpr:
		if sel := in.info.Selections[e]; sel != nil && sel.Kind() == types.FieldVal && in.addressable(e) {
			return actReadAddr
		}
		// package-qualified variables of *this* package cannot occur; other packages' variables are not ours
	case *ast.IndexExpr:
		t := in.typeOf(e.X)
		if t == nil {
			return actNone
		}
		switch t.Underlying().(type) {
		case *types.Map:
			return actReadMapX
		case *types.Slice, *types.Array, *types.Pointer:
			if in.addressable(e) {
				return actReadAddr
			}
		}
	case *ast.StarExpr:
		if ok && tv.IsValue() {
			return actReadStarX
		}
	}
	return actNone
}

func (in *instr) classifyWrite(e ast.Expr) action {
	switch e := e.(type) {
	case *ast.ParenExpr:
		return in.classifyWrite(e.X)
	case *ast.Ident:
		if in.isPkgVar(e) {
			return actWriteAddr
		}
	case *ast.SelectorExpr:
		if sel := in.info.Selections[e]; sel != nil && sel.Kind() == types.FieldVal && in.addressable(e) {
			return actWriteAddr
		}
	case *ast.IndexExpr:
		t := in.typeOf(e.X)
		if t == nil {
			return actNone
		}
		switch t.Underlying().(type) {
		case *types.Map:
			return actWriteMapX
		case *types.Slice, *types.Array, *types.Pointer:
			if in.addressable(e) {
				return actWriteAddr
			}
		}
	case *ast.StarExpr:
		return actWriteStarX
	}
	return actNone
}

// externalCallee reports the package path of a called function or method that is declared outside this package.
func (in *instr) externalCallee(call *ast.CallExpr) (string, bool) {
	var id *ast.Ident
	switch f := call.Fun.(type) {
	case *ast.Ident:
		id = f
	case *ast.SelectorExpr:
		id = f.Sel
	default:
		return "", false
	}
	fn, ok := in.info.Uses[id].(*types.Func)
	if !ok || fn.Pkg() == nil || fn.Pkg() == in.pkg.Types {
		return "", false
	}
	return fn.Pkg().Path(), true
}

func (in *instr) builtin(call *ast.CallExpr) string {
	id, ok := call.Fun.(*ast.Ident)
	if !ok {
		return ""
	}
	if _, ok := in.info.Uses[id].(*types.Builtin); ok {
		return id.Name
	}
	return ""
}

// plan walks a function body on the pristine tree and records what to do with each node.
func (in *instr) plan(body ast.Node) {
	markTarget := func(e ast.Expr) {
		in.noRead[e] = true
		for {
			p, ok := e.(*ast.ParenExpr)
			if !ok {
				break
			}
			e = p.X
			in.noRead[e] = true
		}
	}
	// first pass: contexts
	ast.Inspect(body, func(n ast.Node) bool {
		switch n := n.(type) {
		case *ast.AssignStmt:
			for _, l := range n.Lhs {
				markTarget(l)
				if n.Tok != token.DEFINE {
					if a := in.classifyWrite(l); a != actNone {
						if sideEffectFree(l) {
							in.acts[unparen(l)] = a
						} else {
							in.skipped = append(in.skipped, site{Pos: in.fset.Position(l.Pos()).String(), Kind: "write with side effects in target", Expr: in.exprString(l)})
						}
					}
				}
			}
		case *ast.IncDecStmt:
			markTarget(n.X)
			if a := in.classifyWrite(n.X); a != actNone && sideEffectFree(n.X) {
				in.acts[unparen(n.X)] = a
			}
		case *ast.UnaryExpr:
			if n.Op == token.AND {
				markTarget(n.X)
			}
		case *ast.RangeStmt:
			if n.Key != nil {
				markTarget(n.Key)
				if n.Tok == token.ASSIGN {
					if a := in.classifyWrite(n.Key); a != actNone && sideEffectFree(n.Key) {
						in.acts[unparen(n.Key)] = a
					}
				}
			}
			if n.Value != nil {
				markTarget(n.Value)
				if n.Tok == token.ASSIGN {
					if a := in.classifyWrite(n.Value); a != actNone && sideEffectFree(n.Value) {
						in.acts[unparen(n.Value)] = a
					}
				}
			}
			if t := in.typeOf(n.X); t != nil {
				switch t.Underlying().(type) {
				case *types.Slice:
					in.acts[rangeKey{n}] = actRangeSlice
				case *types.Map:
					in.acts[rangeKey{n}] = actRangeMap
				}
			}
		case *ast.SelectorExpr:
			in.noRead[n.Sel] = true
		case *ast.KeyValueExpr:
			// keys of struct literals are field names, never expressions
			if id, ok := n.Key.(*ast.Ident); ok {
				if v, ok := in.info.Uses[id].(*types.Var); ok && v.IsField() {
					in.noRead[id] = true
				}
			}
		case *ast.CallExpr:
			switch in.builtin(n) {
			case "append":
				if len(n.Args) > 0 {
					in.acts[argKey{n, 0}] = actAppendArg
				}
			case "copy":
				if len(n.Args) == 2 {
					if _, ok := in.typeOf(n.Args[0]).Underlying().(*types.Slice); ok {
						in.acts[argKey{n, 0}] = actCopyDst
					}
					if _, ok := in.typeOf(n.Args[1]).Underlying().(*types.Slice); ok {
						in.acts[argKey{n, 1}] = actCopySrc
					}
				}
			case "delete":
				if len(n.Args) == 2 {
					in.acts[argKey{n, 0}] = actDeleteMap
				}
			case "":
				// a conversion of a byte or rune slice to a string reads every element
				if tv, ok := in.info.Types[n.Fun]; ok && tv.IsType() && len(n.Args) == 1 {
					if b, ok := tv.Type.Underlying().(*types.Basic); ok && b.Kind() == types.String {
						if at := in.typeOf(n.Args[0]); at != nil {
							if _, isSlice := at.Underlying().(*types.Slice); isSlice {
								in.acts[argKey{n, 0}] = actExtRead
							}
						}
					}
				}
				// a function outside this package reads (package sort: permutes) the elements of slices handed to it
				if pkgPath, ok := in.externalCallee(n); ok {
					for i, a := range n.Args {
						t := in.typeOf(a)
						if t == nil {
							continue
						}
						if _, isSlice := t.Underlying().(*types.Slice); isSlice {
							if pkgPath == "sort" || pkgPath == "slices" {
								in.acts[argKey{n, i}] = actExtWrite
							} else {
								in.acts[argKey{n, i}] = actExtRead
							}
						}
					}
				}
			}
		}
		return true
	})
	// second pass: reads
	ast.Inspect(body, func(n ast.Node) bool {
		e, ok := n.(ast.Expr)
		if !ok {
			return true
		}
		if _, planned := in.acts[e]; planned {
			return true // a write target
		}
		if a := in.classifyRead(e); a != actNone {
			if a == actReadAddr && !sideEffectFree(e) {
				// &e would still be evaluated once (the read is rewritten in place), so calls inside are fine for reads
			}
			in.acts[e] = a
		}
		return true
	})
}

type rangeKey struct{ n *ast.RangeStmt }

func (rangeKey) Pos() token.Pos { return token.NoPos }
func (rangeKey) End() token.Pos { return token.NoPos }

type argKey struct {
	n *ast.CallExpr
	i int
}

func (argKey) Pos() token.Pos { return token.NoPos }
func (argKey) End() token.Pos { return token.NoPos }

func unparen(e ast.Expr) ast.Expr {
	for {
		p, ok := e.(*ast.ParenExpr)
		if !ok {
			return e
		}
		e = p.X
	}
}

func rt(name string) ast.Expr {
	return &ast.SelectorExpr{X: ast.NewIdent("verifrt"), Sel: ast.NewIdent(name)}
}

func lit(i int) ast.Expr { return &ast.BasicLit{Kind: token.INT, Value: strconv.Itoa(i)} }

func call(fn string, args ...ast.Expr) ast.Expr { return &ast.CallExpr{Fun: rt(fn), Args: args} }

// apply performs the planned rewrites bottom-up.
func (in *instr) apply(body ast.Node) ast.Node {
	return astutil.Apply(body, nil, func(c *astutil.Cursor) bool {
		n := c.Node()
		switch x := n.(type) {
		case *ast.RangeStmt:
			switch in.acts[rangeKey{x}] {
			case actRangeSlice:
				x.X = call("RSliceAll", x.X, lit(in.newSite(x.X, "range over slice")))
			case actRangeMap:
				x.X = call("RMap", x.X, lit(in.newSite(x.X, "range over map")))
			}
			return true
		case *ast.CallExpr:
			for i := range x.Args {
				switch in.acts[argKey{x, i}] {
				case actAppendArg:
					x.Args[i] = call("WAppend", x.Args[i], lit(in.newSite(x.Args[i], "append target")))
				case actCopyDst:
					x.Args[i] = call("WSliceAll", x.Args[i], lit(in.newSite(x.Args[i], "copy destination")))
				case actCopySrc:
					x.Args[i] = call("RSliceAll", x.Args[i], lit(in.newSite(x.Args[i], "copy source")))
				case actDeleteMap:
					x.Args[i] = call("WMap", x.Args[i], lit(in.newSite(x.Args[i], "delete from map")))
				case actExtRead:
					if x.Ellipsis == token.NoPos || i < len(x.Args)-1 {
						x.Args[i] = call("RSliceAll", x.Args[i], lit(in.newSite(x.Args[i], "slice read by a library call")))
					}
				case actExtWrite:
					x.Args[i] = call("WSliceAll", x.Args[i], lit(in.newSite(x.Args[i], "slice permuted by a library call")))
				}
			}
			return true
		}
		e, ok := n.(ast.Expr)
		if !ok {
			return true
		}
		switch in.acts[e] {
		case actReadAddr:
			id := in.newSite(e, "read")
			c.Replace(&ast.ParenExpr{X: &ast.StarExpr{X: call("R", &ast.UnaryExpr{Op: token.AND, X: e}, lit(id))}})
		case actWriteAddr:
			id := in.newSite(e, "write")
			c.Replace(&ast.ParenExpr{X: &ast.StarExpr{X: call("W", &ast.UnaryExpr{Op: token.AND, X: e}, lit(id))}})
		case actReadMapX:
			ix := e.(*ast.IndexExpr)
			ix.X = call("RMap", ix.X, lit(in.newSite(e, "map read")))
		case actWriteMapX:
			ix := e.(*ast.IndexExpr)
			ix.X = call("WMap", ix.X, lit(in.newSite(e, "map write")))
		case actReadStarX:
			st := e.(*ast.StarExpr)
			st.X = call("R", st.X, lit(in.newSite(e, "read through pointer")))
		case actWriteStarX:
			st := e.(*ast.StarExpr)
			st.X = call("W", st.X, lit(in.newSite(e, "write through pointer")))
		}
		return true
	})
}

func main() {
	dir := flag.String("dir", "/repo", "package directory")
	out := flag.String("out", "", "output directory for rewritten files and overlay.json")
	tags := flag.String("tags", "verif", "build tags")
	flag.Parse()
	if *out == "" {
		fmt.Fprintln(os.Stderr, "vinstr: -out required")
		os.Exit(2)
	}
	cfg := &packages.Config{Dir: *dir, BuildFlags: []string{"-tags=" + *tags},
		Mode: packages.NeedName | packages.NeedFiles | packages.NeedCompiledGoFiles | packages.NeedSyntax | packages.NeedTypes | packages.NeedTypesInfo | packages.NeedImports}
	pkgs, err := packages.Load(cfg, ".")
	if err != nil || len(pkgs) != 1 {
		fmt.Fprintln(os.Stderr, "vinstr: load failed:", err)
		os.Exit(2)
	}
	pkg := pkgs[0]
	if len(pkg.Errors) > 0 {
		for _, e := range pkg.Errors {
			fmt.Fprintln(os.Stderr, "vinstr:", e)
		}
		os.Exit(2)
	}
	in := &instr{pkg: pkg, info: pkg.TypesInfo, fset: pkg.Fset, acts: map[ast.Node]action{}, noRead: map[ast.Node]bool{}}
	if err := os.MkdirAll(*out, 0o755); err != nil {
		fmt.Fprintln(os.Stderr, err)
		os.Exit(2)
	}
	overlay := map[string]string{}
	absDir, _ := filepath.Abs(*dir)
	syncUsers := 0
	goStmts := 0
	for i, f := range pkg.Syntax {
		name := pkg.CompiledGoFiles[i]
		base := filepath.Base(name)
		if strings.HasPrefix(base, "verif_") || strings.HasSuffix(base, "_test.go") {
			continue
		}
		ast.Inspect(f, func(n ast.Node) bool {
			if _, ok := n.(*ast.GoStmt); ok {
				goStmts++
			}
			return true
		})
		// redirect sync imports to the shims
		for _, imp := range f.Imports {
			p, _ := strconv.Unquote(imp.Path.Value)
			switch p {
			case "sync":
				imp.Path.Value = strconv.Quote(rtPath + "/vsync")
				if imp.Name == nil {
					imp.Name = ast.NewIdent("sync")
				}
				syncUsers++
			case "sync/atomic":
				imp.Path.Value = strconv.Quote(rtPath + "/vatomic")
				if imp.Name == nil {
					imp.Name = ast.NewIdent("atomic")
				}
				syncUsers++
			}
		}
		before := len(in.sites)
		for _, d := range f.Decls {
			if fd, ok := d.(*ast.FuncDecl); ok && fd.Body != nil {
				in.plan(fd.Body)
				fd.Body = in.apply(fd.Body).(*ast.BlockStmt)
			}
		}
		if len(in.sites) > before {
			astutil.AddNamedImport(in.fset, f, "verifrt", rtPath)
		}
		var buf bytes.Buffer
		if err := format.Node(&buf, in.fset, f); err != nil {
			fmt.Fprintln(os.Stderr, "vinstr: format", base, err)
			os.Exit(2)
		}
		dst := filepath.Join(*out, base)
		if err := os.WriteFile(dst, buf.Bytes(), 0o644); err != nil {
			fmt.Fprintln(os.Stderr, err)
			os.Exit(2)
		}
		overlay[name] = dst
	}
	// package-level variables: the roots of the process-wide state
	var globals []string
	scope := pkg.Types.Scope()
	for _, n := range scope.Names() {
		if v, ok := scope.Lookup(n).(*types.Var); ok {
			globals = append(globals, v.Name())
		}
	}
	sort.Strings(globals)
	var g bytes.Buffer
	g.WriteString("// Code generated by vinstr. DO NOT EDIT.\n\npackage influxql\n\n")
	g.WriteString("// VerifGlobals returns the address of every package-level variable, by name.\nfunc VerifGlobals() map[string]interface{} {\n\treturn map[string]interface{}{\n")
	for _, n := range globals {
		if n == "_" {
			continue
		}
		fmt.Fprintf(&g, "\t\t%q: &%s,\n", n, n)
	}
	g.WriteString("\t}\n}\n")
	gen := filepath.Join(*out, "verif_globals_gen.go")
	os.WriteFile(gen, g.Bytes(), 0o644)
	overlay[filepath.Join(absDir, "verif_globals_gen.go")] = gen
	// the runtime and shims are virtual packages below the module root
	for rel, src := range map[string]string{"verifrt/rt.go": rtSource, "verifrt/vsync/vsync.go": vsyncSource, "verifrt/vatomic/vatomic.go": vatomicSource} {
		dst := filepath.Join(*out, strings.ReplaceAll(rel, "/", "_"))
		os.WriteFile(dst, []byte(src), 0o644)
		overlay[filepath.Join(absDir, rel)] = dst
	}
	ov, _ := json.MarshalIndent(map[string]interface{}{"Replace": overlay}, "", " ")
	os.WriteFile(filepath.Join(*out, "overlay.json"), ov, 0o644)
	kinds := map[string]int{}
	for _, s := range in.sites {
		kinds[s.Kind]++
	}
	rep := map[string]interface{}{"sites": len(in.sites), "by_kind": kinds, "skipped": in.skipped, "globals": globals, "files": len(overlay) - 4, "sync_imports_redirected": syncUsers, "go_statements": goStmts}
	rb, _ := json.MarshalIndent(rep, "", " ")
	os.WriteFile(filepath.Join(*out, "report.json"), rb, 0o644)
	sb, _ := json.Marshal(in.sites)
	os.WriteFile(filepath.Join(*out, "sites.json"), sb, 0o644)
	fmt.Printf("vinstr: %d sites %v, %d skipped, %d globals, sync imports redirected: %d\n", len(in.sites), kinds, len(in.skipped), len(globals), syncUsers)
}
