package gram

import (
	"strconv"
	"time"

	"github.com/influxdata/influxql"
)

// SelCtx says where a SELECT stands.
type SelCtx int

const (
	SelTop SelCtx = iota
	SelExplain
	SelCQ
	SelSub
)

// ZoneNames lists the time zones tz() may name on this machine (UTC always).
var ZoneNames = func() []string {
	z := []string{"UTC"}
	for _, n := range []string{"America/New_York", "Asia/Kolkata"} {
		if _, err := time.LoadLocation(n); err == nil {
			z = append(z, n)
		}
	}
	return z
}()

func (g *G) field(cx ExprCtx) *influxql.Field {
	f := &influxql.Field{}
	switch g.C.Choose(5) {
	case 1:
		f.Expr = g.wildcard()
	case 2:
		f.Expr = g.regex("field.regex")
	case 3:
		g.kw("DISTINCT")
		f.Expr = &influxql.Distinct{Val: g.ident("field.distinct", "d")}
	case 4:
		if cx.NoCalls {
			f.Expr = g.Expr(cx)
		} else {
			f.Expr = g.call(cx)
		}
	default:
		f.Expr = g.Expr(cx)
	}
	if g.opt() {
		g.kw("AS")
		f.Alias = g.ident("field.alias", "al")
	}
	return f
}

// segments emits a possibly qualified measurement name; forms: 0 m, 1 rp.m, 2 db.rp.m, 3 db..m
func (g *G) segments(role string, form int, m *influxql.Measurement, nameDef string) {
	switch form {
	case 1:
		m.RetentionPolicy = g.ident(role+".rp", "rp0")
		g.Glue()
		g.p(".")
		g.Glue()
	case 2:
		m.Database = g.ident(role+".db", "db0")
		g.Glue()
		g.p(".")
		g.Glue()
		m.RetentionPolicy = g.ident(role+".rp", "rp0")
		g.Glue()
		g.p(".")
		g.Glue()
	case 3:
		m.Database = g.ident(role+".db", "db0")
		g.Glue()
		g.p(".")
		g.Glue()
		g.p(".")
		g.Glue()
	}
	m.Name = g.ident(role+".name", nameDef)
}

func (g *G) target() *influxql.Target {
	g.kw("INTO")
	m := &influxql.Measurement{IsTarget: true}
	switch form := g.C.Choose(6); form {
	case 4: // rp.:MEASUREMENT
		m.RetentionPolicy = g.ident("target.rp", "rp1")
		g.Glue()
		g.p(".")
		g.Glue()
		g.p(":")
		g.Glue()
		g.kw("MEASUREMENT")
	case 5: // db.rp.:MEASUREMENT
		m.Database = g.ident("target.db", "db1")
		g.Glue()
		g.p(".")
		g.Glue()
		m.RetentionPolicy = g.ident("target.rp", "rp1")
		g.Glue()
		g.p(".")
		g.Glue()
		g.p(":")
		g.Glue()
		g.kw("MEASUREMENT")
	default:
		g.segments("target", form, m, "t")
	}
	return &influxql.Target{Measurement: m}
}

// source: measurement forms, regex forms, subquery. allowDB/allowRP restrict qualification (DELETE, DROP SERIES).
func (g *G) source(subqueries, allowDB, allowRP bool) influxql.Source {
	forms := []int{0}
	if allowRP {
		forms = append(forms, 1)
	}
	if allowDB {
		forms = append(forms, 2, 3)
	}
	forms = append(forms, 10) // /re/
	if allowRP {
		forms = append(forms, 11) // rp./re/
	}
	if allowDB {
		forms = append(forms, 12) // db.rp./re/
	}
	if subqueries && g.MaxSub > 0 {
		forms = append(forms, 20)
	}
	form := forms[g.C.Choose(len(forms))]
	m := &influxql.Measurement{}
	switch form {
	case 10:
		m.Regex = g.regex("source.regex")
	case 11:
		m.RetentionPolicy = g.ident("source.rp", "rp0")
		g.Glue()
		g.p(".")
		g.Glue()
		m.Regex = g.regex("source.regex")
	case 12:
		m.Database = g.ident("source.db", "db0")
		g.Glue()
		g.p(".")
		g.Glue()
		m.RetentionPolicy = g.ident("source.rp", "rp0")
		g.Glue()
		g.p(".")
		g.Glue()
		m.Regex = g.regex("source.regex")
	case 20:
		g.p("(")
		g.kw("SELECT")
		g.MaxSub--
		s := g.SelectBody(SelSub)
		g.MaxSub++
		g.p(")")
		return &influxql.SubQuery{Statement: s}
	default:
		g.segments("source", form, m, "m")
	}
	return m
}

func (g *G) sources(subqueries, allowDB, allowRP bool) influxql.Sources {
	out := influxql.Sources{g.source(subqueries, allowDB, allowRP)}
	for len(out) < 3 && g.opt() {
		g.p(",")
		out = append(out, g.source(subqueries, allowDB, allowRP))
	}
	return out
}

func (g *G) where() influxql.Expr {
	g.kw("WHERE")
	return g.Expr(ExprCtx{Cond: true, Role: "where"})
}

// dimensions; needTime forces the first dimension to be time(d) with d > 0 and returns d.
func (g *G) dimensions(needTime bool) (influxql.Dimensions, time.Duration) {
	g.kw("GROUP", "BY")
	var dims influxql.Dimensions
	var interval time.Duration
	haveTime := false
	one := func(first bool) {
		form := 0
		if first && needTime {
			form = 1
		} else {
			form = g.C.Choose(5)
		}
		switch form {
		case 1: // time(d [, offset])
			g.emit(Tok{K: FUNC, Text: "time", Role: "dim.time"})
			g.Glue()
			g.p("(")
			c := &influxql.Call{Name: "time"}
			d := g.dur("dim.interval", "10m")
			if !haveTime { // the parser reads the interval from the first time() dimension
				interval, haveTime = d, true
			}
			c.Args = append(c.Args, &influxql.DurationLiteral{Val: d})
			if g.opt() {
				g.p(",")
				switch g.pick(3) {
				case 1:
					g.p("-")
					c.Args = append(c.Args, &influxql.DurationLiteral{Val: -g.dur("dim.offset", "1h")})
				case 2:
					g.emit(Tok{K: FUNC, Text: "now", Role: "dim.now"})
					g.Glue()
					g.p("(")
					g.p(")")
					c.Args = append(c.Args, &influxql.Call{Name: "now"})
				default:
					c.Args = append(c.Args, &influxql.DurationLiteral{Val: g.dur("dim.offset", "1h")})
				}
			}
			g.p(")")
			dims = append(dims, &influxql.Dimension{Expr: c})
		case 2:
			dims = append(dims, &influxql.Dimension{Expr: g.regex("dim.regex")})
		case 3:
			dims = append(dims, &influxql.Dimension{Expr: g.wildcard()})
		case 4:
			dims = append(dims, &influxql.Dimension{Expr: g.Expr(ExprCtx{Role: "dim"})})
		default:
			dims = append(dims, &influxql.Dimension{Expr: &influxql.VarRef{Val: g.ident("dim.tag", "host")}})
		}
	}
	one(true)
	for len(dims) < 3 && g.opt() {
		g.p(",")
		one(false)
	}
	return dims, interval
}

func (g *G) fill(s *influxql.SelectStatement) {
	g.emit(Tok{K: FUNC, Text: "fill", Role: "fill"})
	g.Glue()
	g.p("(")
	switch g.C.Choose(8) {
	case 0:
		g.emit(Tok{K: RAWIDENT, Text: "none"})
		s.Fill = influxql.NoFill
	case 1:
		g.emit(Tok{K: RAWIDENT, Text: "null"})
		s.Fill = influxql.NullFill
	case 2:
		g.emit(Tok{K: RAWIDENT, Text: "previous"})
		s.Fill = influxql.PreviousFill
	case 3:
		g.emit(Tok{K: RAWIDENT, Text: "linear"})
		s.Fill = influxql.LinearFill
	case 4:
		t := g.value(INT, "fill.int", []string{"0", "1", "100"}[g.pick(3)])
		n, _ := strconv.ParseInt(t, 10, 64)
		s.Fill, s.FillValue = influxql.NumberFill, n
	case 5:
		t := g.value(NUM, "fill.num", []string{"1.5", "3.0", "100000000000000000000.0", "0.00001"}[g.pick(4)])
		f, _ := strconv.ParseFloat(t, 64)
		s.Fill, s.FillValue = influxql.NumberFill, f
	case 6:
		g.p("-")
		t := g.value(INT, "fill.int", []string{"1", "100"}[g.pick(2)])
		n, _ := strconv.ParseInt(t, 10, 64)
		s.Fill, s.FillValue = influxql.NumberFill, -n
	case 7:
		g.p("-")
		t := g.value(NUM, "fill.num", []string{"1.5", "3.0"}[g.pick(2)])
		f, _ := strconv.ParseFloat(t, 64)
		s.Fill, s.FillValue = influxql.NumberFill, -f
	}
	g.p(")")
}

func (g *G) orderBy() influxql.SortFields {
	g.kw("ORDER", "BY")
	switch g.C.Choose(5) {
	case 1:
		g.emit(Tok{K: RAWIDENT, Text: "time"})
		g.kw("ASC")
		return influxql.SortFields{{Name: "time", Ascending: true}}
	case 2:
		g.emit(Tok{K: RAWIDENT, Text: "time"})
		g.kw("DESC")
		return influxql.SortFields{{Name: "time", Ascending: false}}
	case 3:
		g.kw("ASC")
		return influxql.SortFields{{Ascending: true}}
	case 4:
		g.kw("DESC")
		return influxql.SortFields{{Ascending: false}}
	}
	g.emit(Tok{K: RAWIDENT, Text: "time"})
	return influxql.SortFields{{Name: "time", Ascending: true}}
}

func (g *G) optCount(kw, role, def string, dst *int) {
	if g.opt() {
		g.kw(kw)
		*dst = g.count(role, def)
	}
}

// SelectBody generates everything after the SELECT keyword.
func (g *G) SelectBody(sc SelCtx) *influxql.SelectStatement {
	s := &influxql.SelectStatement{}
	cqAgg := false
	fcx := ExprCtx{Role: "field"}
	if sc == SelCQ {
		// a continuous query is either raw (no calls) or an aggregate grouped by time(d > 0)
		if g.C.Choose(2) == 1 {
			cqAgg = true
		} else {
			fcx.NoCalls = true
		}
	}
	if cqAgg {
		s.Fields = append(s.Fields, &influxql.Field{Expr: g.call(fcx)})
	} else {
		s.Fields = append(s.Fields, g.field(fcx))
	}
	for len(s.Fields) < 3 && g.opt() {
		g.p(",")
		s.Fields = append(s.Fields, g.field(fcx))
	}
	if sc == SelCQ || (sc != SelSub && g.opt()) {
		s.Target = g.target()
	}
	g.kw("FROM")
	s.Sources = g.sources(true, true, true)
	if g.opt() {
		s.Condition = g.where()
	}
	if cqAgg || g.opt() {
		var iv time.Duration
		s.Dimensions, iv = g.dimensions(cqAgg)
		if cqAgg && iv <= 0 {
			g.Invalid("aggregate continuous query needs a positive GROUP BY time interval")
		}
	}
	if g.opt() {
		g.fill(s)
	}
	if g.opt() {
		s.SortFields = g.orderBy()
	}
	g.optCount("LIMIT", "limit", "5", &s.Limit)
	g.optCount("OFFSET", "offset", "6", &s.Offset)
	g.optCount("SLIMIT", "slimit", "7", &s.SLimit)
	g.optCount("SOFFSET", "soffset", "8", &s.SOffset)
	if g.opt() {
		g.emit(Tok{K: FUNC, Text: "tz", Role: "tz"})
		g.Glue()
		g.p("(")
		name := g.value(STR, "tz.name", ZoneNames[g.pick(len(ZoneNames))])
		loc, err := time.LoadLocation(name)
		if err != nil {
			g.Invalid("unknown time zone")
		}
		s.Location = loc
		g.p(")")
	}
	s.IsRawQuery = !HasCall(s.Fields)
	return s
}

// Invalid marks the execution as outside the grammar (a deliberate rejection by the parser).
func (g *G) Invalid(why string) {
	if g.InvalidWhy == "" {
		g.InvalidWhy = why
	}
}
