package checks

import (
	"encoding/json"
	"fmt"
	"strings"
	"sync"

	"github.com/influxdata/influxql"

	"verif/harness/astx"
	"verif/harness/ev"
	"verif/harness/gram"
	"verif/harness/xplore"
)

// C01 — the parser accepts the grammar and builds the AST the text denotes.

type vecCase struct {
	Vector []int `json:"vector"`
}

// c01body generates one statement from the choices, renders it and checks the parse.
func c01body(c *xplore.Ctx) (text string, form string, fs []ev.Finding, skipped bool) {
	g := gram.New(c)
	spec := gram.Statement(g)
	if g.InvalidWhy != "" {
		return "", spec.Form, nil, true
	}
	text = gram.Render(c, spec.Toks)
	fs = c01check(spec, text, c.Vector(), c.TotalCost())
	if fs == nil {
		fs = c01sequence(spec, text, c.Vector(), c.TotalCost())
	}
	return text, spec.Form, fs, false
}

// c01sibling renders the statement of the same choice vector with every name, string and regex renamed.
func c01sibling(vec []int) (text string, ok bool) {
	ok = true
	defer func() {
		if recover() != nil {
			ok = false
		}
	}()
	xplore.Replay(func(x *xplore.Ctx) {
		g := gram.New(x)
		g.Hook = func(idx int, k gram.Kind, role, def string) (string, string) {
			switch k {
			case gram.IDENT, gram.STR:
				return def + "_s", ""
			}
			return def, ""
		}
		spec := gram.Statement(g)
		if g.InvalidWhy != "" {
			ok = false
			return
		}
		text = gram.Render(x, spec.Toks)
	}, vec)
	return text, ok
}

// c01sequence: one Parser reads the statement and then a sibling of the same shape with other names (and the
// reverse). What the first call returned must still be what its text denotes after the second call, and the second
// result must be what a fresh parser returns: nothing of one statement may live in state the parser reuses.
func c01sequence(spec *gram.Spec, text string, vec []int, rank int) []ev.Finding {
	sib, ok := c01sibling(vec)
	if !ok || sib == text {
		return nil
	}
	alone, err := influxql.ParseStatement(sib)
	if err != nil {
		return nil
	}
	cs := vecCase{Vector: vec}
	form := ev.SigSafe(spec.Form)
	for order := 0; order < 2; order++ {
		qt := text + ";" + sib
		want := []influxql.Statement{spec.Stmt, alone}
		if order == 1 {
			qt = sib + "; " + text
			want = []influxql.Statement{alone, spec.Stmt}
		}
		var q *influxql.Query
		if p, st := try(func() { q, err = influxql.ParseQuery(qt) }); p != nil {
			return []ev.Finding{{Sig: "panic:ParseQuery", Witness: qt, Detail: fmt.Sprint(p) + "\n" + st, Case: cs, Rank: rank}}
		}
		if err != nil || len(q.Statements) != 2 {
			return []ev.Finding{{Sig: "sequence-rejected:" + form, Witness: qt, Detail: fmt.Sprintf("both statements parse alone; together: %v", err), Case: cs, Rank: rank}}
		}
		for k := range want {
			if path, a, b := astx.Diff(astx.Denoted, want[k], q.Statements[k]); path != "" {
				return []ev.Finding{{Sig: "parser-state-carried:" + form + ":" + astx.GenericPath(path), Witness: qt,
					Detail: fmt.Sprintf("statement %d read by a parser that also read the other one: at %s want %s, got %s", k, path, a, b), Case: cs, Rank: rank}}
			}
		}
	}
	return nil
}

func c01check(spec *gram.Spec, text string, vec []int, rank int) []ev.Finding {
	cs := vecCase{Vector: vec}
	var got influxql.Statement
	var err error
	if p, st := try(func() { got, err = influxql.ParseStatement(text) }); p != nil {
		return []ev.Finding{{Sig: "panic:ParseStatement", Witness: text, Detail: fmt.Sprint(p) + "\n" + st, Case: cs, Rank: rank}}
	}
	form := ev.SigSafe(spec.Form)
	if err != nil {
		return []ev.Finding{{Sig: "rejected:" + form + ":" + ev.SigSafe(errClass(err.Error())), Witness: text, Detail: "ParseStatement failed: " + err.Error(), Case: cs, Rank: rank}}
	}
	if path, a, b := astx.Diff(astx.Denoted, spec.Stmt, got); path != "" {
		return []ev.Finding{{Sig: "wrong-ast:" + form + ":" + astx.GenericPath(path) + ":" + astx.ValueClass(a) + "→" + astx.ValueClass(b), Witness: text,
			Detail: fmt.Sprintf("at %s the text denotes %s but the parser built %s", path, a, b), Case: cs, Rank: rank}}
	}
	// ParseQuery must agree for a single statement
	q, err := influxql.ParseQuery(text)
	if err != nil || len(q.Statements) != 1 || !astx.Equal(astx.Denoted, spec.Stmt, q.Statements[0]) {
		return []ev.Finding{{Sig: "parsequery-differs:" + form, Witness: text, Detail: fmt.Sprintf("ParseQuery: %v", err), Case: cs, Rank: rank}}
	}
	return nil
}

// errClass strips positions and quoted input from an error message so that it names a class.
func errClass(msg string) string {
	if i := strings.Index(msg, " at line "); i > 0 {
		msg = msg[:i]
	}
	if strings.HasPrefix(msg, "found ") {
		if i := strings.Index(msg, ", expected "); i > 0 {
			msg = "found X" + msg[i:]
		}
	}
	return msg
}

func init() {
	register(&Check{ID: "C01", Run: c01run, Replay: func(raw json.RawMessage) []ev.Finding {
		var c vecCase
		if json.Unmarshal(raw, &c) != nil {
			return nil
		}
		var out []ev.Finding
		xplore.Replay(func(x *xplore.Ctx) { _, _, out, _ = c01body(x) }, c.Vector)
		return out
	}})
}

type boundSet struct {
	name   string
	bounds []int // structural, spelling, value
}

func c01run(r *ev.Run) {
	sets := []boundSet{{"struct<=2,value<=1", []int{2, 0, 1}}, {"struct<=2,spell<=1", []int{2, 1, 0}}, {"struct<=3", []int{3, 0, 0}}, {"struct<=1,spell<=1,value<=1", []int{1, 1, 1}}}
	if thorough(r) {
		sets = []boundSet{{"struct<=3,value<=1", []int{3, 0, 1}}, {"struct<=2,spell<=1,value<=1", []int{2, 1, 1}}, {"struct<=1,spell<=2", []int{1, 2, 0}}, {"struct<=2,value<=2", []int{2, 0, 2}}}
	}
	runGrammar(r, sets, func(c *xplore.Ctx) (string, string, []ev.Finding, bool) { return c01body(c) })
	r.Rule = "statements generated from the grammar model (41 statement forms; every optional clause, list length, alternative form, value and spelling is a choice) within the stated deviation bounds from the minimal statement of each form; state = distinct statement text; non-trivial = text accepted by the parser and compared with the intended AST"
}

// runGrammar explores the grammar under each bound set with a body returning (text, form, findings, skipped).
func runGrammar(r *ev.Run, sets []boundSet, body func(c *xplore.Ctx) (string, string, []ev.Finding, bool)) {
	forms := map[string]int64{}
	var fm sync.Mutex
	var skipped int64
	var names []string
	for _, bs := range sets {
		ex := &xplore.Explorer{Bounds: bs.bounds, Workers: r.Workers, Deadline: deadlineFor(r.Tier), Body: func(c *xplore.Ctx) {
			text, form, fs, skip := body(c)
			if skip {
				fm.Lock()
				skipped++
				fm.Unlock()
				return
			}
			n := r.Eval()
			accepted := true
			for _, f := range fs {
				if strings.HasPrefix(f.Sig, "rejected:") || strings.HasPrefix(f.Sig, "panic:") {
					accepted = false
				}
				r.Report(f)
			}
			if r.State(astx.HashString(text), accepted) {
				fm.Lock()
				forms[form]++
				fm.Unlock()
			}
			r.Sample(n, func() interface{} { return text })
		}}
		ex.Run()
		r.Trans(ex.Transitions)
		if ex.Capped {
			r.Exhaustive = false
		}
		names = append(names, fmt.Sprintf("%s: executions=%d by_deviations=%v", bs.name, ex.Execs, trimZeros(ex.ByCost[:])))
	}
	r.Set("bound_sets", names)
	r.Set("statement_forms", len(gram.Forms))
	r.Set("distinct_texts_per_form", forms)
	r.Set("generated_but_outside_grammar", skipped)
}

func trimZeros(a []int64) []int64 {
	n := len(a)
	for n > 0 && a[n-1] == 0 {
		n--
	}
	return a[:n]
}
