package checks

import (
	"fmt"
	"math"
	"strings"
	"time"
)

// A structured model of WHERE conditions shared by C10 and C18: atoms with a known meaning,
// joined by AND in a given tree shape. The meaning is computed from the structure with exact
// int64 comparisons, never by the package under test.

type cmAtom struct {
	text string
	// time atom: isTime, op in {"=","<","<=",">",">="} as seen with time on the LEFT, value in ns
	isTime bool
	op     string
	zoned  bool // value depends on the zone
	value  func(z *time.Location) int64
	upper  bool // spelled TIME
	right  bool // written `literal OP time`
	form   string
	// non-time atom: eval over the point's tags/fields
	eval func(p cmPoint) bool
}

type cmPoint struct {
	t      int64
	host   string
	region string
	value  int64
}

func (p cmPoint) env() map[string]interface{} {
	return map[string]interface{}{"host": p.host, "region": p.region, "value": p.value, "flag": p.value > 5, "time_idle": p.value, "Timestamp_ms": p.value, "timeout": p.host}
}

var cmNow = time.Date(2000, 1, 1, 12, 0, 0, 0, time.UTC)

const cmV0 = int64(946684800000000000) // 2000-01-01T00:00:00Z

type cmLit struct {
	form  string
	text  string
	zoned bool
	value func(z *time.Location) int64
}

func cmConst(v int64) func(*time.Location) int64 { return func(*time.Location) int64 { return v } }

func cmLiterals(extremes bool) []cmLit {
	l := []cmLit{
		{"int", fmt.Sprint(cmV0), false, cmConst(cmV0)},
		{"rfc3339", "'2000-01-01T01:00:00Z'", false, cmConst(cmV0 + 3600e9)},
		{"date", "'2000-01-01'", true, func(z *time.Location) int64 { return time.Date(2000, 1, 1, 0, 0, 0, 0, z).UnixNano() }},
		{"now-d", "now() - 1h", false, cmConst(cmNow.UnixNano() - 3600e9)},
		{"duration", "1h", false, cmConst(3600e9)},
		{"datetime", "'2000-01-01 01:00:00'", true, func(z *time.Location) int64 { return time.Date(2000, 1, 1, 1, 0, 0, 0, z).UnixNano() }},
		{"rfc3339nano", "'2000-01-01T00:00:00.000000001Z'", false, cmConst(cmV0 + 1)},
		{"now+d", "now() + 90m", false, cmConst(cmNow.UnixNano() + 5400e9)},
		{"now", "now()", false, cmConst(cmNow.UnixNano())},
		{"int0", "0", false, cmConst(0)},
		{"negint", "-1000", false, cmConst(-1000)},
		{"rfc3339offset", "'2000-01-01T02:00:00+02:00'", false, cmConst(cmV0)},
		{"duration-subsecond", "1500ms", false, cmConst(1500e6)},
		{"duration-negative-micro", "-250u", false, cmConst(-250e3)},
	}
	if extremes {
		l = append(l,
			cmLit{"mintime+1", fmt.Sprint(int64(math.MinInt64) + 3), false, cmConst(math.MinInt64 + 3)},
			cmLit{"maxtime", fmt.Sprint(int64(math.MaxInt64) - 1), false, cmConst(math.MaxInt64 - 1)},
			cmLit{"maxint64", fmt.Sprint(int64(math.MaxInt64)), false, cmConst(math.MaxInt64)},
			cmLit{"minint64", fmt.Sprint(int64(math.MinInt64)), false, cmConst(math.MinInt64)},
		)
	}
	return l
}

var cmOps = []string{">=", "<", "=", ">", "<="}

func cmSwap(op string) string {
	switch op {
	case "<":
		return ">"
	case ">":
		return "<"
	case "<=":
		return ">="
	case ">=":
		return "<="
	}
	return op
}

// cmTimeAtoms builds the time atoms: every literal x every operator x time on either side, plus
// an upper-case TIME variant of the first literal.
func cmTimeAtoms(lits []cmLit, withUpper bool) []cmAtom {
	var out []cmAtom
	for _, l := range lits {
		for _, op := range cmOps {
			out = append(out, cmAtom{text: "time " + op + " " + l.text, isTime: true, op: op, zoned: l.zoned, value: l.value, form: l.form})
			// `literal OP time` means `time swap(OP) literal`
			out = append(out, cmAtom{text: l.text + " " + op + " time", isTime: true, op: cmSwap(op), zoned: l.zoned, value: l.value, right: true, form: l.form})
		}
	}
	if withUpper {
		l := lits[0]
		for _, op := range cmOps {
			out = append(out, cmAtom{text: "TIME " + op + " " + l.text, isTime: true, op: op, value: l.value, upper: true, form: l.form})
		}
	}
	return out
}

func cmNonTimeAtoms() []cmAtom {
	return []cmAtom{
		{text: "host = 'a'", eval: func(p cmPoint) bool { return p.host == "a" }},
		{text: "region != 'x'", eval: func(p cmPoint) bool { return p.region != "x" }},
		{text: "value > 5", eval: func(p cmPoint) bool { return p.value > 5 }},
		{text: "(host = 'a' OR region = 'x')", eval: func(p cmPoint) bool { return p.host == "a" || p.region == "x" }},
		{text: "(host = 'b' OR value = 5)", eval: func(p cmPoint) bool { return p.host == "b" || p.value == 5 }},
		{text: "true", eval: func(p cmPoint) bool { return true }},
		{text: "host::tag = 'a'", eval: func(p cmPoint) bool { return p.host == "a" }},
		{text: "flag = true", eval: func(p cmPoint) bool { return p.value > 5 }},
		{text: "value % 2 = 0", eval: func(p cmPoint) bool { return p.value%2 == 0 }},
		{text: "(host != '100%' OR region = '%d%s')", eval: func(p cmPoint) bool { return true }},
		{text: "(flag != true OR true = flag)", eval: func(p cmPoint) bool { return true }},
		{text: "flag != true", eval: func(p cmPoint) bool { return !(p.value > 5) }},
		{text: "(value::integer > 5 OR region::tag = 'x')", eval: func(p cmPoint) bool { return p.value > 5 || p.region == "x" }},
		// fields whose names begin like the time column's: ordinary predicates
		{text: "time_idle > 5", eval: func(p cmPoint) bool { return p.value > 5 }},
		{text: "(\"Timestamp_ms\" = 5 OR timeout = 'b')", eval: func(p cmPoint) bool { return p.value == 5 || p.host == "b" }},
	}
}

func (a cmAtom) holds(p cmPoint, z *time.Location) bool {
	if !a.isTime {
		return a.eval(p)
	}
	v := a.value(z)
	switch a.op {
	case "=":
		return p.t == v
	case "<":
		return p.t < v
	case "<=":
		return p.t <= v
	case ">":
		return p.t > v
	case ">=":
		return p.t >= v
	}
	return false
}

// cmShapes: ways of joining n atoms with AND and parentheses; %d placeholders are atom indices.
var cmShapes = map[int][]string{
	1: {"%0", "(%0)"},
	2: {"%0 AND %1", "(%0 AND %1)", "(%0) AND %1"},
	3: {"%0 AND %1 AND %2", "%0 AND (%1 AND %2)", "(%0 AND %1) AND %2", "(%0 AND (%1) AND %2)"},
}

func cmRender(shape string, atoms []cmAtom) string {
	s := shape
	for i, a := range atoms {
		s = strings.ReplaceAll(s, fmt.Sprintf("%%%d", i), a.text)
	}
	return s
}

// cmHolds is the reference meaning of the whole condition (a conjunction in every shape).
func cmHolds(atoms []cmAtom, p cmPoint, z *time.Location) bool {
	for _, a := range atoms {
		if !a.holds(p, z) {
			return false
		}
	}
	return true
}

// cmPoints: timestamps at and one nanosecond around every bound, plus MinTime, MaxTime, 0, x tag/field combinations.
func cmPoints(atoms []cmAtom, z *time.Location) []cmPoint {
	ts := map[int64]bool{math.MinInt64 + 2: true, math.MaxInt64 - 1: true, 0: true}
	for _, a := range atoms {
		if a.isTime {
			v := a.value(z)
			for _, d := range []int64{-1, 0, 1} {
				if (d < 0 && v == math.MinInt64) || (d > 0 && v == math.MaxInt64) {
					continue
				}
				x := v + d
				if x >= math.MinInt64+2 && x <= math.MaxInt64-1 {
					ts[x] = true
				}
			}
		}
	}
	var out []cmPoint
	for t := range ts {
		for _, h := range []string{"a", "b"} {
			for _, rg := range []string{"x", "y"} {
				for _, v := range []int64{5, 6} {
					out = append(out, cmPoint{t, h, rg, v})
				}
			}
		}
	}
	return out
}

var cmZones = []*time.Location{nil, time.FixedZone("P", -7*3600)}

func cmZoneName(z *time.Location) string {
	if z == nil {
		return "nil(UTC)"
	}
	return z.String()
}

func cmLoc(z *time.Location) *time.Location {
	if z == nil {
		return time.UTC
	}
	return z
}
