#!/usr/bin/env python3
"""Regenerates /verif/MANIFEST.json from the table below and validates it against the schema."""
import json, subprocess, sys, os

ROOT = "/verif"
hook_commits = ["a3ef33e", "b2fabb3"]

# id -> (technique, level text, level note, design ref)
CHECKS = {
 "C03": ("exhaustive enumeration of operator chains against a precedence-climbing reference",
         "Every chain of k operators over all 19 spellings (k<=3 quick, k<=5 thorough) with every single parenthesised sub-chain and every set of <=1 (2) negated operands is parsed by the real ParseExpr and compared structurally with an independent precedence-climbing reference; the printed tree is re-parsed and compared. Exhaustive inside the bound, nothing sampled.",
         "Trusts the reference climber (40 lines) and astx structural comparison. Says nothing about chains longer than the bound.", "3/C03"),
 "C08": ("exhaustive enumeration of duration spellings and values against math/big",
         "ParseDuration is run on every 1-, 2- and 3-component spelling over a per-unit boundary ladder (around MaxInt64/unit and 2^64/unit, both signs) and compared with exact big-integer sums; FormatDuration on every nanosecond value in a dense interval around zero and on every k*unit, k*unit±1 of the ladder; the same spellings as literals in 17 statement slots. Exhaustive inside the stated alphabets.",
         "Trusts math/big. Magnitudes between the ladder points are not visited; a rejected in-range spelling is not counted as a violation (C01 covers acceptance).", "3/C08"),
 "C09": ("exhaustive differential enumeration of expression trees: Reduce vs Eval",
         "Every well-typed expression tree of depth <= 2 over all 16 operators and boundary values of the five kinds, each leaf a literal, a variable bound at Reduce time or a variable bound only at Eval time (all splits of the assignment), is folded by the real Reduce and evaluated by the real Eval before and after; results must agree in dynamic type and value, and reducing twice must equal reducing once. Time arithmetic is compared with exact int64 nanosecond arithmetic over instants x durations x zones.",
         "Well-typedness is decided by the generator's own typing rule (documented in the evidence assumptions). Trees deeper than 2 and values outside the tables are not visited.", "3/C09"),
 "C19": ("deviation-bounded exhaustive enumeration of SELECT source trees and statement kinds",
         "xplore enumerates every SELECT within d deviations (4 quick, 6 thorough) of the minimal one over source forms (m, rp.m, db.rp.m, db..m, /re/, db.rp./re/, subqueries to depth 3, lists of 1-3) x every INTO form x EXPLAIN wrappers, with a distinct database per position; RequiredPrivileges must list READ for every database placed at any depth and WRITE for the target. Every statement kind (all SHOW forms with every ON/FROM/EXACT/WHERE subset) must report a non-empty list, and the administrative kinds must require admin.",
         "The list of administrative kinds is transcribed from the property text. CQ bodies are only checked for non-emptiness.", "3/C19"),
 "C20": ("exhaustive enumeration of field lists with invariant oracle",
         "Every field list up to length 3 (4 thorough) over a 24-field alphabet built to collide (repeated names, aliases equal to generated suffixes, top/bottom with tag arguments, time, nameless literals), and up to length 4 (5) over a 12-field core, x INTO/no INTO x raw/RewriteTimeFields/OmitTime; ColumnNames must have the right length, time first, aliases verbatim, pairwise-distinct names when aliases are distinct, and be pure (two calls equal, statement fingerprint unchanged).",
         "Invariants only; no reference naming algorithm.", "3/C20"),
 "C11": ("exhaustive enumeration of regex conditions x candidate strings, before/after comparison",
         "Regexes are every concatenation of <=2 (thorough <=3) atoms from a 34-atom alphabet (literals, classes, groups, alternation, repetition, flags, escapes) inside each of 22 anchor/flag contexts, with both operators and inside AND/OR/parenthesised/duplicated conditions. Every condition that RewriteRegexConditions changes is evaluated before and after with the real EvalBool on every string of length <=4 (5) over {a,b,c,A,newline,x} and on every substituted literal and its neighbours; each literal must be matched in full by the regex and there must be at most 100.",
         "Go's regexp is the matcher for the original side. Strings longer than the bound are covered only through the literal-neighbour candidates.", "3/C11"),
 "C10": ("exhaustive enumeration of structured conditions x boundary points against a structural reference",
         "Conditions are 1-3 atoms joined by AND in every parenthesisation; time atoms = 5 operators x time on either side x 16 literal forms (integer ns incl. MinTime/MaxTime/int64 extremes, RFC3339, date, date-time, duration, now()±d, upper-case TIME), non-time atoms = tag/field predicates, parenthesised ORs, true. Each is split by the real ConditionExpr and compared with the structural meaning at every timestamp b-1,b,b+1 around every bound plus MinTime, MaxTime, 0, x 8 tag/field combinations, in two zones.",
         "Reference meaning is computed from the generator's structure with int64 comparisons. Points are valid timestamps only.", "3/C10"),
 "C18": ("history exploration: every SetTimeRange sequence replayed on fresh statements, invariants in every state",
         "Roots are SELECTs with no WHERE or a 1-2 (3) atom condition from the condition model (incl. time on the right, upper-case TIME, bare top-level OR); every sequence of <=2 (3) SetTimeRange calls over 3 windows is replayed on a freshly parsed statement and after every call: ConditionExpr yields exactly the last window, a semantic evaluation of the resulting condition selects exactly the window's points satisfying the original non-time predicates, and the condition does not grow.",
         "The semantic oracle is the harness's own evaluator of time comparisons; states are deduplicated by canonical AST hash.", "3/C18"),
 "C01": ("deviation-bounded exhaustive enumeration of the statement grammar against generator-intended ASTs",
         "A grammar model with one generator per statement form (41 forms: SELECT in four contexts, every SHOW/CREATE/DROP/ALTER/GRANT/REVOKE/DELETE/KILL/EXPLAIN/SET PASSWORD form and the cardinality variants) builds both the text and, by hand, the AST it denotes. xplore enumerates every statement whose choice vector has at most d structural, s spelling and v value deviations from the minimal statement of its form (quick (2,0,1) and (1,1,0); thorough (3,0,1), (2,1,1), (1,2,0), (2,0,2)); each is parsed by the real ParseStatement/ParseQuery and compared field by field (every field, also the ones the generator left zero).",
         "The grammar model is the specification (README EBNF intersected with the parser's deliberate, message-bearing rejections; Appendix A of DESIGN.md). Statements further than the bound from a minimal form are not visited.", "3/C01"),
 "C02": ("deviation-bounded exhaustive enumeration of accepted statements, print -> re-parse -> structural compare",
         "Every statement generated by the grammar model within (2,0,1) deviations (thorough (3,0,1) and (2,0,2)) that the parser accepts is printed with String(), re-parsed and compared structurally with the first AST (password re-inserted for the two redacting printers). A failing round trip is attributed to the smallest sub-expression that does not round-trip on its own, or to the first differing AST path.",
         "Quantifies over statements the grammar model can produce; comparison is structural so pure reformatting cannot alarm.", "3/C02"),
 "C16": ("exhaustive gap x substitution enumeration over generated statements; exhaustive separator enumeration for ParseQuery",
         "(a) Every statement of the grammar model within 1 (thorough 2) structural deviations, in default rendering, x every inter-token gap that carries whitespace x each of 16 substitutions (6 whitespace forms incl. CR/CRLF, 4 line-comment forms, 6 block-comment forms): the variant must parse to the same AST as the base rendering. (b) ParseQuery on every join of 1-3 statements from a 12-statement pool with 8 semicolon-bearing and 4 semicolon-less separator forms and leading/trailing forms: the result must be exactly the statements parsed alone, in order, and a missing separator must be an error.",
         "Gaps are those the grammar model's lexical classification marks as carrying whitespace; base rendering must itself be accepted (C01).", "3/C16"),
 "C13": ("exhaustive enumeration of accepted statements x every public operation with a panic oracle",
         "Statements are the grammar-model corpus within the deviation bound plus an odd-shapes enumeration (16 function names x every argument list of <=2 (3) from 15 arguments x 5 positions, and ~50 hand-picked shapes: zero/negative intervals, fractional divisors, regex operators next to arithmetic, wildcards in odd places). On every accepted statement each of 7 statement-level operations and, for every SELECT inside it, 31 select-level operations (clone, walk, all rewrites, RewriteFields under 3 schemas, Reduce under 4 valuers, ConditionExpr, Eval, EvalType, names, intervals, SetTimeRange, …) runs on a freshly parsed copy with panics recovered.",
         "Oracle is 'no panic' only. Rewriters that return nil for call arguments are caller misuse and not exercised.", "3/C13"),
 "C14": ("history exploration over (original, clone) pairs with fingerprint and address-set invariants",
         "Roots are every SELECT the grammar model generates within the bound and every expression in them. For each root Clone/CloneExpr must be structurally identical (every field, also unexported) and share no mutable node (address sets of pointers and slice backing arrays). Every history of <=1 (thorough <=2) steps - one of 9 mutators (6 in-place rewrites, reflective poke of every scalar, slice replace/truncate/append, the interval memo) applied to the original or the clone - is replayed on a freshly parsed statement; the side not operated on must keep its fingerprint, and in the state reached 9 read-only operations must leave their receiver's fingerprint unchanged.",
         "Fingerprint = astx canonical dump of every field. Immutable shared leaves (*regexp.Regexp, *time.Location) are exempt from the alias check.", "3/C14"),
 "C15": ("exhaustive enumeration of password statements (full product over passwords, deviation-bounded layouts) with an exact-span oracle",
         "Both password statement kinds x every password of length <=2 (3) over a 10-symbol alphabet (marker letters, space, both quotes, backslash, =, ;, tab, newline) x 8 user names x layouts (keyword case, every gap from none/space/tab/LF/CRLF/block comment/line comment) x contexts (alone, among other statements, two password statements, no space after ';'), counting only texts the parser accepts. Sanitize(text) must equal the text with exactly the password literal spans replaced by [REDACTED]; String() must contain [REDACTED] and no marker; every non-password statement within 1 deviation and hand-picked texts that contain the words must come back unchanged.",
         "The expected span comes from the harness's own renderer. Passwords longer than the bound are not visited.", "3/C15"),
 "C06": ("exhaustive enumeration of strings through quote-then-scan and statement templates",
         "Every string of length <=3 (4) over a 24-symbol alphabet containing every character class the escaper and the lexer distinguish (incl. NUL, CR, an invalid UTF-8 byte), every keyword in every case pattern, every 2-rune string over a rune set, and (db, rp, measurement) triples over 8 segment values incl. the empty middle: QuoteString/QuoteIdent must scan back to exactly one STRING/IDENT with the same value (expressible strings), IdentNeedsQuotes must agree with scanning the bare text, and the quoted value inserted into 12 statement templates must either be rejected or change exactly the slot's leaf in the template's AST.",
         "Expressible = valid UTF-8 without NUL or CR, as the property states. Strings longer than the bound are not visited.", "3/C06"),
 "C07": ("deviation-bounded exhaustive enumeration of placeholder positions x bindings, parameter form vs literal form",
         "Every statement of the grammar model within 1 (2) structural deviations x every value token (identifier, string, integer, number, duration, regex in every position the grammar has) replaced by $p (also a quoted name) x each of ~85 bindings covering every branch of BindValue/bindObjectValue, string contents chosen to re-lex badly and unbindable values; thorough adds every pair of placeholders. Unbindable or unbound parameters must fail; otherwise the parameter form and the form with the literal written out (harness's own formatter) must both fail or produce the same AST through ParseQuery.",
         "Where a bound value has no literal spelling at the position (a regex outside regex positions, a negative number after an explicit sign, two placeholders glued into one dotted name) only totality is checked.", "3/C07"),
 "C05": ("exhaustive enumeration of lexeme sequences against an independent folding/position model",
         "Every concatenation of <=3 spellings from a 48-spelling core alphabet (thorough: 77 spellings, and length 4 over the core) - raw, so neighbours fuse, and pairs/triples also joined by 6 separators (CR, CRLF, LF, multi-byte rune, multi-line comment) - is scanned to EOF; wherever the next rune is '/' both Scan and ScanRegex are explored. Token extents are measured by the verif hook (runes fetched net of pushback), so tiling, progress and termination are decided independently of the positions under test; each token's Pos is compared with the reference position of its first rune.",
         "Trusts the hook's rune accounting and the 30-line folding/position model. Parse-error positions are covered only through the token positions they are built from.", "3/C05"),
 "C04": ("exhaustive enumeration of lexeme sequences, token edits, byte strings, nesting ladders and adversarial bindings with hook-enforced oracles",
         "Every concatenation of <=3 lexeme spellings (thorough: 77 spellings, and length 4 over a 48-spelling core) through ParseQuery/ParseStatement/ParseExpr; every single-token edit of every statement of the grammar model within 1 (2) deviations; every byte string of length <=2 and length-3 strings over 41 selected bytes; 17 nesting/length ladders up to n=1024 (4096); every value slot bound to 37 adversarial parameter values. Oracle: no panic, never (nil,nil), no read of an unfilled or overwritten slot of the two 3-slot pushback rings (verif hook at curr()/read()), token reads <= 40*(runes+8) (hook budget), and String()/Walk of any returned result do not panic.",
         "Random / coverage-guided generation (named in the property's quantifier) is another family and not attempted; linearity is measured in scanner calls and, for 19 shapes of one long token parsed at two lengths, in bytes allocated (time decides only above five seconds). The six nesting ladders are run once more at n = 2^20 in child processes, where five of them end in the recorded stack overflow.", "3/C04"),
 "C12": ("exhaustive enumeration of statements x deviation-bounded schemas against an independent expansion model",
         "Full product of 27 field forms x 7 GROUP BY forms x 11 source forms (measurements, lists, 1-2 level subqueries, unknown and empty measurements) x 2 conditions, under every schema within 1 (2) deviations of a base schema of three measurements with overlapping names and conflicting types; RewriteFields' result must equal the result of an expansion model written from the property text (matching columns sorted by name, types by precedence across sources, tags left out of calls and out of fields when grouped by, per-function type filters, untyped references typed), the receiver must be unchanged and 5 (13) repeated runs with fresh maps must agree.",
         "Independence from Go's map iteration order is decided by repetition, not enumeration (map order cannot be controlled without changing the runtime). The model is a re-implementation and was validated against the repository's own RewriteFields test table through the zero-violation run.", "3/C12"),
 "C17": ("stateless schedule exploration (cooperative scheduler, preemption-bounded DFS) over an automatically instrumented build, with write-footprint independence and happens-before race analysis",
         "The package is instrumented at every check from /repo's current tree (go/packages + go/types: every read/write of package-level variables, fields, elements, pointer targets, maps, append/copy/delete targets and slices handed to library calls; sync and sync/atomic redirected to shims whose operations are scheduling points) and built through go build -overlay; the repository's own tests must pass against the instrumented code. Scenarios are every ordered pair (thorough: also triples) of 24 thread bodies over 4 shared pre-parsed statements. Each body runs solo (the oracle), then all run under a cooperative scheduler: logged accesses are analysed for data races (overlapping accesses of different threads, one a write, unordered by happens-before through the shims); if no thread writes the pre-existing region and there is no synchronisation, all interleavings are equivalent (reads commute) and one schedule represents them; otherwise schedules are enumerated depth-first with preemption bound 0..2 (3) and every result must equal its solo twin, with no panic or deadlock. Three control scenarios that must race are checked on every run (else exit 2). A separate free-running -race pass over the same bodies is merged into the evidence.",
         "Sequentially consistent interleavings at source-level access points; accesses inside the standard library are seen only by the race-detector pass. The shared set is the one the property names (GroupByInterval excluded).", "3/C17"),
}
ALL = ["C%02d" % i for i in range(1, 21)]
NOT_YET = "check not built yet in this revision of /verif (work in progress; see DESIGN.md section 3 for the planned bounded-exhaustive check)"

m = {
 "version": 1,
 "setup_cmd": "cd /verif && ./setup.sh",
 "hooks": {
   "guard": "verif",
   "enable": "go build -tags verif (harness module /verif/harness, replace github.com/influxdata/influxql => /repo)",
   "baseline_off_cmd": "cd /repo && GOFLAGS=-mod=mod GOPROXY=off GOSUMDB=off GOTOOLCHAIN=local go test -vet=off -count=1 ./...",
   "source_commits": hook_commits,
   "add_only": True,
 },
 "engines": [
   {"name": "xplore", "path": "harness/xplore", "serves_properties": [], "kind_free_text": "stateless deviation-bounded exhaustive explorer of choice trees (DFS over choice vectors, replayable)"},
   {"name": "gram", "path": "harness/gram", "serves_properties": ["C01","C02","C04","C07","C13","C14","C15","C16"], "kind_free_text": "grammar model: generators that build statement text and the AST it denotes from choices; renderer with lexical gap classification"},
   {"name": "lexx", "path": "harness/lexx", "serves_properties": ["C04","C05"], "kind_free_text": "lexeme-sequence alphabet and independent rune folding / position model"},
   {"name": "vinstr", "path": "instr", "serves_properties": ["C17"], "kind_free_text": "source instrumenter (go/packages, go/types, astutil) producing a go build overlay"},
   {"name": "vsched", "path": "harness/cmd/vsched", "serves_properties": ["C17"], "kind_free_text": "cooperative scheduler, preemption-bounded DFS over schedules, vector-clock race analysis"},
   {"name": "astx", "path": "harness/astx", "serves_properties": sorted(CHECKS), "kind_free_text": "reflection AST canonicaliser: dump, first-difference, hash, alias sets"},
 ],
 "checks": [],
 "notes": "All checks are bounded exhaustive enumeration run directly against the implementation built from /repo's working tree with -tags verif. Every check runs under a supervising parent process that turns a Go runtime fatal error raised while a goroutine is inside the library into a violation. The rule string in each evidence file states what the run enumerated, including the families added after the eight rounds of independently written changes (DESIGN.md sections 3 and 10). Ledger of known findings: /verif/KNOWN_FINDINGS.txt.",
 "not_applicable": [],
}
for cid in ALL:
    if cid in CHECKS:
        tech, text, note, ref = CHECKS[cid]
        m["checks"].append({
          "property_id": cid,
          "quick_cmd": "./check %s quick" % cid,
          "thorough_cmd": "./check %s thorough" % cid,
          "evidence_file": "/verif/evidence/%s.json" % cid,
          "replay_cmd_template": "./check replay {path}",
          "engine": "vcheck" if cid != "C17" else "vinstr+vsched+vrace",
          "level_claimed": {"category": "model_checking", "text": text, "design_ref": "DESIGN.md " + ref},
          "level_note": note,
          "technique": tech,
        })
    else:
        m["not_applicable"].append({"property_id": cid, "reason": NOT_YET})
json.dump(m, open(os.path.join(ROOT, "MANIFEST.json"), "w"), indent=1)
print("wrote MANIFEST.json with", len(m["checks"]), "checks")
try:
    import jsonschema
    jsonschema.validate(m, json.load(open("/root/.vp/MANIFEST.schema.json")))
    print("schema ok")
except ImportError:
    print("jsonschema not available in this python")
