package gram

import (
	"strings"
	"unicode"

	"verif/harness/xplore"
)

// Gap kinds.
const (
	GapNone = iota
	GapMay
	GapMust
)

func wordLike(t Tok) bool {
	switch t.K {
	case PUNCT:
		return false
	}
	return true
}

func fuses(prev, cur string) bool {
	if prev == "" || cur == "" {
		return false
	}
	a, b := prev[len(prev)-1], cur[0]
	switch string([]byte{a, b}) {
	case "--", "/*", "//", "=~", "<>", "<=", ">=", "!=", "!~", "::", "*/", "==", "..":
		return true
	}
	if a == '.' && b >= '0' && b <= '9' {
		return true
	}
	if b == '.' && a >= '0' && a <= '9' {
		return true
	}
	return false
}

// GapKind classifies the gap before toks[i] (i > 0) given the rendered neighbours.
func GapKind(prev, cur Tok, prevText, curText string) int {
	if cur.NoGap {
		return GapNone
	}
	if wordLike(prev) && wordLike(cur) {
		return GapMust
	}
	if fuses(prevText, curText) {
		return GapMust
	}
	// an identifier directly followed by "(" would be read as a call
	if cur.K == PUNCT && cur.Text == "(" && (prev.K == IDENT || prev.K == FUNC || prev.K == RAWIDENT || prev.K == TYPENAME) {
		return GapMust
	}
	return GapMay
}

var MustFillers = []string{" ", "\t", "\n", "\r\n", "  ", " \n\t "}
var mayExtra = []string{"\n"}

func mixedCase(s string) string {
	var b strings.Builder
	for i, r := range s {
		if i%2 == 0 {
			b.WriteRune(unicode.ToLower(r))
		} else {
			b.WriteRune(unicode.ToUpper(r))
		}
	}
	return b.String()
}

// TokText renders one token; c may be nil (default spelling).
func TokText(c *xplore.Ctx, t Tok) string {
	ch := func(n int) int {
		if c == nil {
			return 0
		}
		return c.ChooseC(CSpell, n)
	}
	switch t.K {
	case KW:
		switch ch(3) {
		case 1:
			return strings.ToLower(t.Text)
		case 2:
			return mixedCase(t.Text)
		}
		return t.Text
	case IDENT:
		if BareLegal(t.Text) {
			if ch(2) == 1 {
				return QuoteIdentSpec(t.Text)
			}
			return t.Text
		}
		if strings.Contains(t.Text, "'") && ch(2) == 1 {
			// the other quote character may be escaped too: "it\'s"
			return strings.ReplaceAll(QuoteIdentSpec(t.Text), "'", `\'`)
		}
		return QuoteIdentSpec(t.Text)
	case FUNC, TYPENAME:
		if ch(2) == 1 {
			return strings.ToUpper(t.Text)
		}
		return t.Text
	case STR:
		if strings.Contains(t.Text, `"`) && ch(2) == 1 {
			// the other quote character may be escaped too: 'say \"hi\"'
			return strings.ReplaceAll(QuoteStringSpec(t.Text), `"`, `\"`)
		}
		return QuoteStringSpec(t.Text)
	case REGEX:
		return "/" + strings.ReplaceAll(t.Text, "/", `\/`) + "/"
	case PARAM:
		if t.Text == "\x00" {
			return "$" // the empty placeholder
		}
		if BareLegal(t.Text) {
			return "$" + t.Text
		}
		return "$" + QuoteIdentSpec(t.Text)
	}
	return t.Text
}

func defaultMay(prev, cur Tok) string {
	if prev.K == PUNCT && prev.Text == "(" {
		return ""
	}
	if cur.K == PUNCT && (cur.Text == ")" || cur.Text == ",") {
		return ""
	}
	return " "
}

// Piece is a rendered token with the gap that precedes it.
type Piece struct {
	Gap     string
	GapKind int
	Text    string
	Tok     Tok
}

// RenderPieces renders the tokens; c may be nil for the default spelling.
func RenderPieces(c *xplore.Ctx, toks []Tok) []Piece {
	out := make([]Piece, len(toks))
	for i, t := range toks {
		out[i].Tok = t
		out[i].Text = TokText(c, t)
	}
	for i := 1; i < len(toks); i++ {
		k := GapKind(toks[i-1], toks[i], out[i-1].Text, out[i].Text)
		out[i].GapKind = k
		switch k {
		case GapNone:
		case GapMust:
			n := 0
			if c != nil {
				n = c.ChooseC(CSpell, len(MustFillers))
			}
			out[i].Gap = MustFillers[n]
		case GapMay:
			def := defaultMay(toks[i-1], toks[i])
			n := 0
			if c != nil {
				n = c.ChooseC(CSpell, 2+len(mayExtra))
			}
			switch n {
			case 0:
				out[i].Gap = def
			case 1:
				if def == "" {
					out[i].Gap = " "
				} else {
					out[i].Gap = ""
				}
			default:
				out[i].Gap = mayExtra[n-2]
			}
		}
	}
	return out
}

// Join concatenates pieces.
func Join(ps []Piece) string {
	var b strings.Builder
	for _, p := range ps {
		b.WriteString(p.Gap)
		b.WriteString(p.Text)
	}
	return b.String()
}

// Render renders the tokens to text.
func Render(c *xplore.Ctx, toks []Tok) string { return Join(RenderPieces(c, toks)) }
