package checks

import (
	"encoding/json"
	"fmt"
	"sort"
	"strings"
	"verif/harness/gram"

	"github.com/influxdata/influxql"

	"verif/harness/astx"
	"verif/harness/ev"
	"verif/harness/xplore"
)

// C19 — required privileges cover everything a statement touches.

// ---- part 1: SELECT source trees, enumerated with xplore ---------------------------------------

type c19gen struct {
	c     *xplore.Ctx
	n     int
	nm    int
	reads []string // database of every measurement placed
}

// db returns a fresh database name. Successive names differ only in letter case (dbx, DBX, Dbx, dby, ...): a
// privilege list that treats them as one database is missing a read.
func (g *c19gen) db() string {
	i := g.n
	g.n++
	base := []string{"dbx", "dby", "dbz", "dbw"}[(i/3)%4]
	if i >= 12 {
		base += fmt.Sprint(i / 12)
	}
	switch i % 3 {
	case 1:
		return strings.ToUpper(base)
	case 2:
		return strings.ToUpper(base[:1]) + base[1:]
	}
	return base
}

// source renders one source; depth = remaining subquery nesting allowed.
func (g *c19gen) source(depth int) string {
	kinds := 6
	if depth > 0 {
		kinds = 7
	}
	// measurement names rotate through the reserved system names: reading one of those is reading the database too
	g.nm++
	m := []string{"m", "_series", "_fieldKeys", "_measurements", "m2", "_name", "_tagKey", "_tagKeys", "_tags"}[g.nm%9]
	switch g.c.Choose(kinds) {
	case 0:
		g.reads = append(g.reads, "")
		return m
	case 1:
		g.reads = append(g.reads, "")
		return "rp." + m
	case 2:
		d := g.db()
		g.reads = append(g.reads, d)
		return d + ".rp." + m
	case 3:
		d := g.db()
		g.reads = append(g.reads, d)
		return d + ".." + m
	case 4:
		g.reads = append(g.reads, "")
		return "/re/"
	case 5:
		d := g.db()
		g.reads = append(g.reads, d)
		return d + ".rp./re/"
	default:
		return "(SELECT f FROM " + g.sources(depth-1) + ")"
	}
}

func (g *c19gen) sources(depth int) string {
	n := 1 + g.c.Choose(3)
	var s []string
	for i := 0; i < n; i++ {
		s = append(s, g.source(depth))
	}
	return strings.Join(s, ", ")
}

type c19sel struct {
	text    string
	reads   []string
	write   string
	hasInto bool
}

func c19select(c *xplore.Ctx, depth int) c19sel {
	g := &c19gen{c: c}
	wrap := c.Free(4)
	tgt := c.Free(6)
	var out c19sel
	into := ""
	switch tgt {
	case 1:
		into, out.hasInto = " INTO t", true
	case 2:
		into, out.hasInto = " INTO rp.t", true
	case 3:
		into, out.hasInto, out.write = " INTO wdb.rp.t", true, "wdb"
	case 4:
		into, out.hasInto, out.write = " INTO wdb..t", true, "wdb"
	case 5:
		into, out.hasInto, out.write = " INTO wdb.rp.:MEASUREMENT", true, "wdb"
	}
	body := "SELECT f" + into + " FROM " + g.sources(depth)
	switch wrap {
	case 1:
		body = "EXPLAIN " + body
	case 2:
		body = "EXPLAIN ANALYZE " + body
	case 3:
		body = "EXPLAIN ANALYZE VERBOSE " + body
	}
	out.text = body
	out.reads = g.reads
	return out
}

func c19checkSelect(s c19sel, vec []int) []ev.Finding {
	cs := map[string]interface{}{"kind": "select", "vector": vec}
	stmt, err := influxql.ParseStatement(s.text)
	if err != nil {
		return []ev.Finding{{Sig: "generator:rejected", Witness: s.text, Detail: err.Error(), Case: cs}}
	}
	if out := c19privs(s, stmt, s.text, "", cs); out != nil {
		return out
	}
	// asked again after the statement was edited in place (every named database renamed), and asked of a clone that was
	// edited: the answer describes the statement as it is now
	for _, viaClone := range []bool{false, true} {
		st2, err := influxql.ParseStatement(s.text)
		if err != nil {
			break
		}
		if _, err := st2.RequiredPrivileges(); err != nil {
			break
		}
		target := st2
		if viaClone {
			switch x := st2.(type) {
			case *influxql.SelectStatement:
				target = x.Clone()
			default:
				continue
			}
		}
		influxql.WalkFunc(target, func(n influxql.Node) {
			if m, ok := n.(*influxql.Measurement); ok && m.Database != "" {
				m.Database += "_r"
			}
		})
		s2 := s
		s2.reads = nil
		for _, d := range s.reads {
			if d != "" {
				d += "_r"
			}
			s2.reads = append(s2.reads, d)
		}
		if s2.write != "" {
			s2.write += "_r"
		}
		suffix := ":after-in-place-rename"
		if viaClone {
			suffix = ":clone-after-rename"
		}
		if out := c19privs(s2, target, s.text, suffix, cs); out != nil {
			return out
		}
	}
	// the same statement as the second and third one read by a single parser: what the privileges are computed from
	// must not depend on what the parser read before
	qt := s.text + ";" + s.text + ";" + s.text
	q, err := influxql.ParseQuery(qt)
	if err != nil || len(q.Statements) != 3 {
		return []ev.Finding{{Sig: "generator:rejected-in-sequence", Witness: qt, Detail: fmt.Sprint(err), Case: cs}}
	}
	for k, st := range q.Statements {
		if out := c19privs(s, st, qt, fmt.Sprintf(":statement-%d-of-one-parser", k+1), cs); out != nil {
			return out
		}
	}
	return nil
}

func c19privs(s c19sel, stmt influxql.Statement, wit, suffix string, cs interface{}) []ev.Finding {
	var eps influxql.ExecutionPrivileges
	var err error
	if p, st := try(func() { eps, err = stmt.RequiredPrivileges() }); p != nil {
		return []ev.Finding{{Sig: "panic:RequiredPrivileges", Witness: wit, Detail: fmt.Sprint(p) + st, Case: cs}}
	}
	if err != nil {
		return []ev.Finding{{Sig: "error:select", Witness: wit, Detail: err.Error(), Case: cs}}
	}
	have := map[string]bool{}
	for _, e := range eps {
		have[fmt.Sprintf("%v|%s", e.Privilege, e.Name)] = true
	}
	var out []ev.Finding
	for _, d := range s.reads {
		if !have[fmt.Sprintf("%v|%s", influxql.ReadPrivilege, d)] {
			out = append(out, ev.Finding{Sig: "missing-read" + suffix, Witness: wit, Detail: fmt.Sprintf("no READ on %q in %v", d, eps), Case: cs, Rank: len(wit)})
			break
		}
	}
	if s.hasInto && !have[fmt.Sprintf("%v|%s", influxql.WritePrivilege, s.write)] {
		out = append(out, ev.Finding{Sig: "missing-write" + suffix, Witness: wit, Detail: fmt.Sprintf("no WRITE on %q in %v", s.write, eps), Case: cs, Rank: len(wit)})
	}
	return out
}

// ---- part 2: every statement kind ---------------------------------------------------------------

var c19admin = map[string]bool{
	"CreateUserStatement": true, "DropUserStatement": true, "GrantStatement": true, "GrantAdminStatement": true,
	"RevokeStatement": true, "RevokeAdminStatement": true, "SetPasswordUserStatement": true, "ShowUsersStatement": true,
	"ShowGrantsForUserStatement": true, "CreateDatabaseStatement": true, "DropDatabaseStatement": true,
	"CreateRetentionPolicyStatement": true, "AlterRetentionPolicyStatement": true, "CreateSubscriptionStatement": true,
	"DropSubscriptionStatement": true, "ShowSubscriptionsStatement": true, "DropShardStatement": true,
	"DropMeasurementStatement": true, "KillQueryStatement": true, "ShowShardsStatement": true, "ShowShardGroupsStatement": true,
	"ShowStatsStatement": true, "ShowDiagnosticsStatement": true,
}

// c19Statements: at least one text per statement kind and per optional-clause subset that changes
// which privilege code path runs (ON / FROM / EXACT).
func c19Statements() []string {
	s := []string{
		"SELECT f FROM m", "SELECT f INTO t FROM m", "EXPLAIN SELECT f FROM m",
		"CREATE CONTINUOUS QUERY q ON d BEGIN SELECT f INTO t FROM m END",
		"CREATE CONTINUOUS QUERY q ON d BEGIN SELECT f INTO o.rp.t FROM m END",
		"DELETE FROM m", "DELETE WHERE a = 'b'", "DROP SERIES FROM m", "DROP SERIES WHERE a = 'b'",
		"DROP DATABASE d", "DROP MEASUREMENT m", "DROP USER u", "DROP SHARD 1", "DROP RETENTION POLICY p ON d",
		"DROP CONTINUOUS QUERY q ON d", "DROP SUBSCRIPTION s ON d.p",
		"CREATE DATABASE d", "CREATE DATABASE d WITH DURATION 1h", "CREATE RETENTION POLICY p ON d DURATION 1h REPLICATION 1",
		"ALTER RETENTION POLICY p ON d DURATION 1h", "CREATE SUBSCRIPTION s ON d.p DESTINATIONS ALL 'h'",
		"CREATE USER u WITH PASSWORD 'p'", "CREATE USER u WITH PASSWORD 'p' WITH ALL PRIVILEGES", "SET PASSWORD FOR u = 'p'",
		"GRANT READ ON d TO u", "GRANT ALL TO u", "REVOKE WRITE ON d FROM u", "REVOKE ALL PRIVILEGES FROM u",
		"KILL QUERY 1", "KILL QUERY 1 ON h",
		"SHOW CONTINUOUS QUERIES", "SHOW DATABASES", "SHOW QUERIES", "SHOW SHARDS", "SHOW SHARD GROUPS", "SHOW SUBSCRIPTIONS", "SHOW USERS",
		"SHOW DIAGNOSTICS", "SHOW DIAGNOSTICS FOR 'x'", "SHOW STATS", "SHOW STATS FOR 'x'", "SHOW GRANTS FOR u",
		"SHOW RETENTION POLICIES", "SHOW RETENTION POLICIES ON d",
	}
	// SHOW forms with optional ON / FROM (/ WITH KEY) / EXACT
	type form struct {
		head    string
		withKey bool
		exact   bool // has [EXACT] CARDINALITY variants
		card    string
	}
	forms := []form{
		{"SHOW MEASUREMENTS", false, false, ""}, {"SHOW SERIES", false, false, ""}, {"SHOW FIELD KEYS", false, false, ""},
		{"SHOW TAG KEYS", false, false, ""}, {"SHOW TAG VALUES", true, false, ""},
		{"SHOW SERIES %sCARDINALITY", false, true, ""}, {"SHOW MEASUREMENT %sCARDINALITY", false, true, ""},
		{"SHOW TAG KEY %sCARDINALITY", false, true, ""}, {"SHOW FIELD KEY %sCARDINALITY", false, true, ""},
		{"SHOW TAG VALUES %sCARDINALITY", true, true, ""},
	}
	for _, f := range forms {
		exacts := []string{""}
		if f.exact {
			exacts = []string{"", "EXACT "}
		}
		for _, ex := range exacts {
			head := f.head
			if f.exact {
				head = fmt.Sprintf(f.head, ex)
			}
			for _, on := range []string{"", " ON d"} {
				for _, from := range []string{"", " FROM m", " FROM /re/"} {
					if head == "SHOW MEASUREMENTS" && from != "" {
						continue
					}
					t := head + on + from
					if f.withKey {
						t += " WITH KEY = k"
					}
					s = append(s, t, t+" WHERE a = 'b'")
				}
			}
		}
	}
	return s
}

func c19checkStmt(text string) []ev.Finding {
	cs := map[string]interface{}{"kind": "stmt", "text": text}
	stmt, err := influxql.ParseStatement(text)
	if err != nil {
		return []ev.Finding{{Sig: "generator:rejected", Witness: text, Detail: err.Error(), Case: cs}}
	}
	tn := strings.TrimPrefix(fmt.Sprintf("%T", stmt), "*influxql.")
	var eps influxql.ExecutionPrivileges
	if p, st := try(func() { eps, err = stmt.RequiredPrivileges() }); p != nil {
		return []ev.Finding{{Sig: "panic:RequiredPrivileges:" + tn, Witness: text, Detail: fmt.Sprint(p) + st, Case: cs}}
	}
	var out []ev.Finding
	if err != nil {
		out = append(out, ev.Finding{Sig: "error:" + tn, Witness: text, Detail: err.Error(), Case: cs, Rank: len(text)})
	}
	if len(eps) == 0 && err == nil {
		ex := ""
		if strings.Contains(text, "EXACT") {
			ex = ":exact"
		}
		out = append(out, ev.Finding{Sig: "empty-privileges:" + tn + ex, Witness: text, Detail: "RequiredPrivileges returned an empty list: the statement requires nothing", Case: cs, Rank: len(text)})
	}
	if c19admin[tn] {
		admin := false
		for _, e := range eps {
			admin = admin || e.Admin
		}
		if !admin {
			out = append(out, ev.Finding{Sig: "not-admin:" + tn, Witness: text, Detail: fmt.Sprintf("administrative statement does not require admin: %v", eps), Case: cs, Rank: len(text)})
		}
	}
	// the list is the caller's: after the caller has overwritten every element of it, this statement parsed afresh and
	// another administrative statement are asked again and answer as before
	if len(out) == 0 && len(eps) > 0 {
		before := fmt.Sprint(eps)
		probe, _ := influxql.ParseStatement("SHOW USERS")
		probeBefore := ""
		if probe != nil {
			p0, _ := probe.RequiredPrivileges()
			probeBefore = fmt.Sprint(p0)
		}
		for i := range eps {
			eps[i] = influxql.ExecutionPrivilege{Admin: false, Name: "scratch", Privilege: influxql.NoPrivileges}
		}
		again, _ := influxql.ParseStatement(text)
		var eps2, eps3 influxql.ExecutionPrivileges
		if p, _ := try(func() {
			eps2, _ = again.RequiredPrivileges()
			if probe != nil {
				eps3, _ = probe.RequiredPrivileges()
			}
		}); p == nil {
			if fmt.Sprint(eps2) != before {
				out = append(out, ev.Finding{Sig: "privileges-depend-on-what-a-caller-did-with-an-earlier-list:" + tn, Witness: text, Detail: fmt.Sprintf("first answer %s; after the caller overwrote that list the same statement answers %v", before, eps2), Case: cs, Rank: len(text)})
			} else if probe != nil && fmt.Sprint(eps3) != probeBefore {
				out = append(out, ev.Finding{Sig: "privileges-depend-on-what-a-caller-did-with-an-earlier-list:SHOW_USERS-after-" + tn, Witness: text, Detail: fmt.Sprintf("SHOW USERS answered %s; after the caller overwrote the list of %q it answers %v", probeBefore, text, eps3), Case: cs, Rank: len(text)})
			}
		}
	}
	return out
}

func init() {
	register(&Check{ID: "C19", Run: c19run, Replay: func(raw json.RawMessage) []ev.Finding {
		var c struct {
			Kind   string `json:"kind"`
			Vector []int  `json:"vector"`
			Text   string `json:"text"`
			Depth  int    `json:"depth"`
		}
		if json.Unmarshal(raw, &c) != nil {
			return nil
		}
		if c.Kind == "stmt" {
			return c19checkStmt(c.Text)
		}
		var out []ev.Finding
		xplore.Replay(func(x *xplore.Ctx) { out = c19checkSelect(c19select(x, 3), x.Vector()) }, c.Vector)
		return out
	}})
}

func c19run(r *ev.Run) {
	bound := 4
	if thorough(r) {
		bound = 6
	}
	kinds := map[string]bool{}
	ex := &xplore.Explorer{Bounds: []int{bound}, Workers: r.Workers, Deadline: deadlineFor(r.Tier), Body: func(c *xplore.Ctx) {
		s := c19select(c, 3)
		n := r.Eval()
		r.State(astx.HashString(s.text), len(s.reads) > 1 || s.hasInto)
		r.Sample(n, func() interface{} { return s.text })
		for _, f := range c19checkSelect(s, c.Vector()) {
			r.Report(f)
		}
	}}
	ex.Run()
	r.Trans(ex.Transitions)
	r.Set("select_executions", ex.Execs)
	r.Set("select_deviation_bound", bound)
	r.Set("select_by_deviations", ex.ByCost[:bound+1])
	// every statement of the grammar model within two structural deviations (every option subset of the forms with
	// options): non-empty, no error, administrative kinds require admin
	runGrammar(r, []boundSet{{"every statement form, struct<=2", []int{2, 0, 0}}}, func(c *xplore.Ctx) (string, string, []ev.Finding, bool) {
		g := gram.New(c)
		g.NoValueAlts = true
		spec := gram.Statement(g)
		if g.InvalidWhy != "" {
			return "", spec.Form, nil, true
		}
		text := gram.Render(nil, spec.Toks)
		return text, spec.Form, c19checkStmt(text), false
	})
	stmts := c19Statements()
	for _, t := range stmts {
		n := r.Eval()
		r.Trans(1)
		r.State(astx.HashString(t), true)
		r.Sample(n, func() interface{} { return t })
		if st, err := influxql.ParseStatement(t); err == nil {
			kinds[fmt.Sprintf("%T", st)] = true
		}
		for _, f := range c19checkStmt(t) {
			r.Report(f)
		}
	}
	var ks []string
	for k := range kinds {
		ks = append(ks, strings.TrimPrefix(k, "*influxql."))
	}
	sort.Strings(ks)
	r.Set("statement_kinds_covered", len(ks))
	r.Set("statement_texts", len(stmts))
	r.Exhaustive = !ex.Capped
	r.Rule = fmt.Sprintf("SELECT source trees: every statement within %d deviations of `SELECT f FROM m` (deviation = another source form / one more source / a subquery level, depth<=3) x every INTO form x {plain, EXPLAIN, EXPLAIN ANALYZE, EXPLAIN ANALYZE VERBOSE}, each measurement position with its own database name; plus one text per statement kind and per ON/FROM/EXACT/WHERE subset of the SHOW forms. non-trivial = more than one measurement or an INTO target (or any non-SELECT kind)", bound)
}
