#!/bin/sh
export VERIF_EVIDENCE_DIR=/tmp/verif-seed-evidence
# usage: seedcheck.sh <patch.diff> <property id> [tier]   — applies the patch to /repo, runs the check, undoes the patch
if ! git -C /repo diff --quiet; then echo "/repo is dirty, refusing"; exit 2; fi
if ! git -C /repo apply --check "$1" 2>/dev/null; then
  if ! git -C /repo apply --3way "$1" >/dev/null 2>&1; then git -C /repo checkout -- . ; git -C /repo reset -q; echo "SEEDCHECK $2 $1: patch does not apply to the current tree"; exit 3; fi
  git -C /repo reset -q
else
  git -C /repo apply "$1"
fi
out=$(cd /verif && ./check $2 ${3:-quick} 2>&1); rc=$?
git -C /repo checkout -- .
nv=$(echo "$out" | grep -c '^VIOLATION')
echo "SEEDCHECK $2 $1: rc=$rc violations=$nv $(echo "$out" | grep 'sig=' | head -2 | tr '\n' ' ' | cut -c1-220)"
