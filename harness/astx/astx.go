// Package astx canonicalises influxql AST values by reflection: a line-per-leaf dump that covers
// every field (exported or not), a first-difference diff, a hash, and the set of addresses of
// mutable nodes for alias checks.
package astx

import (
	"fmt"
	"hash/fnv"
	"math"
	"reflect"
	"regexp"
	"sort"
	"strconv"
	"strings"
	"time"
	"unsafe"
)

var (
	regexpT   = reflect.TypeOf((*regexp.Regexp)(nil))
	locT      = reflect.TypeOf((*time.Location)(nil))
	timeT     = reflect.TypeOf(time.Time{})
	durationT = reflect.TypeOf(time.Duration(0))
)

// Opts controls the dump.
type Opts struct {
	// SkipFields lists "TypeName.field" entries that are left out (e.g. the groupByInterval memo).
	SkipFields map[string]bool
}

// Denoted is the option set for comparing the AST a text denotes: the memo written as a side
// effect of GroupByInterval is not part of it.
var Denoted = &Opts{SkipFields: map[string]bool{"SelectStatement.groupByInterval": true}}

// Full compares every field.
var Full = &Opts{}

type line struct{ path, val string }

type dumper struct {
	o     *Opts
	lines []line
	depth int
}

func (d *dumper) leaf(path, val string) { d.lines = append(d.lines, line{path, val}) }

func fmtFloat(f float64) string {
	if math.IsNaN(f) {
		return "NaN"
	}
	return strconv.FormatFloat(f, 'g', -1, 64)
}

func (d *dumper) walk(path string, v reflect.Value) {
	d.depth++
	defer func() { d.depth-- }()
	if d.depth > 100000 {
		panic("astx: depth limit")
	}
	if !v.IsValid() {
		d.leaf(path, "nil")
		return
	}
	t := v.Type()
	switch t {
	case regexpT:
		if v.IsNil() {
			d.leaf(path, "(*regexp.Regexp)(nil)")
		} else {
			d.leaf(path, "regexp:"+v.Interface().(*regexp.Regexp).String())
		}
		return
	case locT:
		if v.IsNil() {
			d.leaf(path, "(*time.Location)(nil)")
		} else {
			d.leaf(path, "loc:"+v.Interface().(*time.Location).String())
		}
		return
	case timeT:
		tm := v.Interface().(time.Time)
		d.leaf(path, fmt.Sprintf("time:%d.%09d@%s", tm.Unix(), tm.Nanosecond(), tm.Location()))
		return
	}
	switch v.Kind() {
	case reflect.Ptr:
		if v.IsNil() {
			d.leaf(path, "("+t.String()+")(nil)")
			return
		}
		d.walk(path+".(*"+t.Elem().Name()+")", v.Elem())
	case reflect.Interface:
		if v.IsNil() {
			d.leaf(path, "nil")
			return
		}
		d.walk(path, v.Elem())
	case reflect.Struct:
		if !v.CanAddr() {
			c := reflect.New(t).Elem()
			c.Set(v)
			v = c
		}
		if t.NumField() == 0 {
			d.leaf(path, t.Name()+"{}")
		}
		for i := 0; i < t.NumField(); i++ {
			f := t.Field(i)
			if d.o != nil && d.o.SkipFields[t.Name()+"."+f.Name] {
				continue
			}
			fv := v.Field(i)
			if f.PkgPath != "" { // unexported
				fv = reflect.NewAt(f.Type, unsafe.Pointer(fv.UnsafeAddr())).Elem()
			}
			d.walk(path+"."+f.Name, fv)
		}
	case reflect.Slice, reflect.Array:
		if v.Len() == 0 {
			d.leaf(path, "[]") // nil and empty are the same AST
			return
		}
		if t.Elem().Kind() == reflect.Uint8 {
			d.leaf(path, fmt.Sprintf("bytes:%q", v.Bytes()))
			return
		}
		d.leaf(path+".len", strconv.Itoa(v.Len()))
		for i := 0; i < v.Len(); i++ {
			d.walk(path+"["+strconv.Itoa(i)+"]", v.Index(i))
		}
	case reflect.Map:
		if v.Len() == 0 {
			d.leaf(path, "map[]")
			return
		}
		keys := v.MapKeys()
		ks := make([]string, len(keys))
		for i, k := range keys {
			ks[i] = fmt.Sprintf("%#v", k.Interface())
		}
		idx := make([]int, len(keys))
		for i := range idx {
			idx[i] = i
		}
		sort.Slice(idx, func(a, b int) bool { return ks[idx[a]] < ks[idx[b]] })
		for _, i := range idx {
			d.walk(path+"{"+ks[i]+"}", v.MapIndex(keys[i]))
		}
	case reflect.String:
		d.leaf(path, strconv.Quote(v.String()))
	case reflect.Bool:
		d.leaf(path, strconv.FormatBool(v.Bool()))
	case reflect.Int, reflect.Int8, reflect.Int16, reflect.Int32, reflect.Int64:
		d.leaf(path, t.Name()+":"+strconv.FormatInt(v.Int(), 10))
	case reflect.Uint, reflect.Uint8, reflect.Uint16, reflect.Uint32, reflect.Uint64, reflect.Uintptr:
		d.leaf(path, t.Name()+":"+strconv.FormatUint(v.Uint(), 10))
	case reflect.Float32, reflect.Float64:
		d.leaf(path, t.Name()+":"+fmtFloat(v.Float()))
	case reflect.Func:
		if v.IsNil() {
			d.leaf(path, "func:nil")
		} else {
			d.leaf(path, "func")
		}
	default:
		d.leaf(path, fmt.Sprintf("%s:%v", t, v))
	}
}

func dump(o *Opts, x interface{}) []line {
	d := &dumper{o: o}
	v := reflect.ValueOf(x)
	root := "nil"
	if v.IsValid() {
		root = ""
	}
	_ = root
	d.walk("$", v)
	return d.lines
}

// Dump returns the canonical text of x.
func Dump(o *Opts, x interface{}) string {
	var b strings.Builder
	for _, l := range dump(o, x) {
		b.WriteString(l.path)
		b.WriteString(" = ")
		b.WriteString(l.val)
		b.WriteByte('\n')
	}
	return b.String()
}

// Hash returns a 64-bit hash of the canonical text.
func Hash(o *Opts, x interface{}) uint64 {
	h := fnv.New64a()
	for _, l := range dump(o, x) {
		h.Write([]byte(l.path))
		h.Write([]byte{'='})
		h.Write([]byte(l.val))
		h.Write([]byte{'\n'})
	}
	return h.Sum64()
}

// HashString hashes a string.
func HashString(s string) uint64 {
	h := fnv.New64a()
	h.Write([]byte(s))
	return h.Sum64()
}

// Diff returns the first differing leaf ("" if equal): its path and both values.
func Diff(o *Opts, a, b interface{}) (path, av, bv string) {
	la, lb := dump(o, a), dump(o, b)
	for i := 0; i < len(la) || i < len(lb); i++ {
		switch {
		case i >= len(la):
			return lb[i].path, "<absent>", lb[i].val
		case i >= len(lb):
			return la[i].path, la[i].val, "<absent>"
		case la[i].path != lb[i].path:
			return la[i].path + " | " + lb[i].path, la[i].val, lb[i].val
		case la[i].val != lb[i].val:
			return la[i].path, la[i].val, lb[i].val
		}
	}
	return "", "", ""
}

// Equal reports structural equality.
func Equal(o *Opts, a, b interface{}) bool {
	p, _, _ := Diff(o, a, b)
	return p == ""
}

// GenericPath strips indices and pointer decorations from a dump path so that it names a slot
// class rather than one occurrence: $.(*SelectStatement).Fields[2].(*Field).Expr -> SelectStatement.Fields[].Field.Expr
func GenericPath(p string) string {
	var b strings.Builder
	for i := 0; i < len(p); i++ {
		c := p[i]
		switch {
		case c == '[':
			j := strings.IndexByte(p[i:], ']')
			if j < 0 {
				b.WriteString(p[i:])
				return b.String()
			}
			b.WriteString("[]")
			i += j
		case c == '$':
		case c == '(' || c == ')' || c == '*':
		default:
			b.WriteByte(c)
		}
	}
	s := b.String()
	s = strings.ReplaceAll(s, "..", ".")
	return strings.TrimPrefix(s, ".")
}

// ValueClass abstracts a leaf value to its kind for signatures.
func ValueClass(v string) string {
	if i := strings.IndexByte(v, ':'); i > 0 && !strings.HasPrefix(v, "\"") {
		return v[:i]
	}
	if strings.HasPrefix(v, "\"") {
		return "string"
	}
	return v
}

// Addrs returns the addresses of every mutable node reachable from x: pointers to structs and
// backing arrays of non-empty slices and maps. *regexp.Regexp and *time.Location are immutable
// shared leaves and are exempt, as are zero-size objects (which share the runtime's zero base).
func Addrs(x interface{}) map[uintptr]string {
	m := map[uintptr]string{}
	var walk func(path string, v reflect.Value)
	walk = func(path string, v reflect.Value) {
		if !v.IsValid() {
			return
		}
		t := v.Type()
		if t == regexpT || t == locT || t == timeT {
			return
		}
		switch v.Kind() {
		case reflect.Ptr:
			if v.IsNil() {
				return
			}
			if t.Elem().Size() > 0 {
				a := v.Pointer()
				if _, seen := m[a]; seen {
					return
				}
				m[a] = path
			}
			walk(path+".(*"+t.Elem().Name()+")", v.Elem())
		case reflect.Interface:
			if !v.IsNil() {
				walk(path, v.Elem())
			}
		case reflect.Struct:
			if !v.CanAddr() {
				c := reflect.New(t).Elem()
				c.Set(v)
				v = c
			}
			for i := 0; i < t.NumField(); i++ {
				f := t.Field(i)
				fv := v.Field(i)
				if f.PkgPath != "" {
					fv = reflect.NewAt(f.Type, unsafe.Pointer(fv.UnsafeAddr())).Elem()
				}
				walk(path+"."+f.Name, fv)
			}
		case reflect.Slice:
			// a backing array exists whenever there is capacity, also under an empty slice (s = s[:0])
			if v.Cap() > 0 && t.Elem().Size() > 0 {
				m[v.Pointer()] = path + "[]"
			}
			for i := 0; i < v.Len(); i++ {
				walk(path+"["+strconv.Itoa(i)+"]", v.Index(i))
			}
		case reflect.Map:
			if v.Len() > 0 {
				m[v.Pointer()] = path + "{}"
			}
			for _, k := range v.MapKeys() {
				walk(path+"{"+fmt.Sprint(k.Interface())+"}", v.MapIndex(k))
			}
		}
	}
	walk("$", reflect.ValueOf(x))
	return m
}

// Shared returns the paths (in a, in b) of the first mutable node that both a and b reach.
func Shared(a, b interface{}) (string, string, bool) {
	ma, mb := Addrs(a), Addrs(b)
	keys := make([]uintptr, 0, len(ma))
	for k := range ma {
		if _, ok := mb[k]; ok {
			keys = append(keys, k)
		}
	}
	if len(keys) == 0 {
		return "", "", false
	}
	sort.Slice(keys, func(i, j int) bool { return ma[keys[i]] < ma[keys[j]] })
	return ma[keys[0]], mb[keys[0]], true
}
