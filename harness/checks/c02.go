package checks

import (
	"encoding/json"
	"fmt"
	"reflect"
	"strings"

	"github.com/influxdata/influxql"

	"verif/harness/astx"
	"verif/harness/ev"
	"verif/harness/gram"
	"verif/harness/xplore"
)

// C02 — printed statements re-parse to the same AST.

// exprShape describes an expression to depth 2: outer operators by precedence level, inner ones exactly.
func exprShape(e influxql.Expr, depth int) string {
	switch e := e.(type) {
	case *influxql.BinaryExpr:
		if depth <= 0 {
			return "Bin"
		}
		op := e.Op.String()
		if depth == 2 {
			op = fmt.Sprintf("L%d", e.Op.Precedence())
		}
		return fmt.Sprintf("Bin(%s;%s,%s)", op, exprShape(e.LHS, depth-1), exprShape(e.RHS, depth-1))
	case *influxql.ParenExpr:
		return "Paren"
	case *influxql.Call:
		return "Call"
	case *influxql.IntegerLiteral:
		return "Integer"
	case nil:
		return "nil"
	}
	return "_"
}

// isSignOnRightOfLevel5: `x OP -y` with OP one of * / % &, where -y was desugared to (-1 * y) or (1 * y).
func isSignOnRightOfLevel5(e influxql.Expr) bool {
	b, ok := e.(*influxql.BinaryExpr)
	if !ok || b.Op.Precedence() != 5 {
		return false
	}
	r, ok := b.RHS.(*influxql.BinaryExpr)
	if !ok || r.Op != influxql.MUL {
		return false
	}
	i, ok := r.LHS.(*influxql.IntegerLiteral)
	if !ok || (i.Val != 1 && i.Val != -1) {
		return false
	}
	switch r.RHS.(type) {
	case *influxql.VarRef, *influxql.Call, *influxql.ParenExpr:
		return true
	}
	return false
}

// minimalFailingExpr finds the deepest sub-expression whose own String() does not re-parse to itself.
func minimalFailingExpr(n influxql.Node) influxql.Expr {
	var best influxql.Expr
	var walk func(e influxql.Expr) bool // returns whether e round-trips
	roundTrips := func(e influxql.Expr) bool {
		var ok bool
		try(func() {
			e2, err := influxql.ParseExpr(e.String())
			ok = err == nil && astx.Equal(astx.Full, e, e2)
		})
		return ok
	}
	walk = func(e influxql.Expr) bool {
		if e == nil || (reflect.ValueOf(e).Kind() == reflect.Ptr && reflect.ValueOf(e).IsNil()) {
			return true
		}
		childrenOK := true
		switch x := e.(type) {
		case *influxql.BinaryExpr:
			childrenOK = walk(x.LHS) && childrenOK
			childrenOK = walk(x.RHS) && childrenOK
		case *influxql.ParenExpr:
			childrenOK = walk(x.Expr)
		case *influxql.Call:
			for _, a := range x.Args {
				childrenOK = walk(a) && childrenOK
			}
		case *influxql.RegexLiteral, *influxql.Wildcard, *influxql.Distinct:
			return true // not expressions on their own
		}
		if !childrenOK {
			return false
		}
		if !roundTrips(e) {
			if best == nil {
				best = e
			}
			return false
		}
		return true
	}
	influxql.WalkFunc(n, func(x influxql.Node) {
		if best != nil {
			return
		}
		switch v := x.(type) {
		case *influxql.Field:
			walk(v.Expr)
		case *influxql.Dimension:
			walk(v.Expr)
		default:
			// conditions hang off statements (of any kind, at any nesting level) directly
			rv := reflect.ValueOf(x)
			if rv.Kind() == reflect.Ptr && !rv.IsNil() && rv.Elem().Kind() == reflect.Struct {
				if f := rv.Elem().FieldByName("Condition"); f.IsValid() && f.Kind() == reflect.Interface && !f.IsNil() {
					walk(f.Interface().(influxql.Expr))
				}
			}
		}
	})
	return best
}

// c02roundTrip checks one accepted statement.
func c02roundTrip(stmt influxql.Statement, text, form string, cs interface{}, rank int) []ev.Finding {
	var printed string
	if p, st := try(func() { printed = stmt.String() }); p != nil {
		return []ev.Finding{{Sig: "panic:String:" + form, Witness: text, Detail: fmt.Sprint(p) + "\n" + st, Case: cs, Rank: rank}}
	}
	reparse := printed
	switch s := stmt.(type) {
	case *influxql.CreateUserStatement:
		reparse = strings.Replace(printed, "[REDACTED]", gram.QuoteStringSpec(s.Password), 1)
	case *influxql.SetPasswordUserStatement:
		reparse = strings.Replace(printed, "[REDACTED]", gram.QuoteStringSpec(s.Password), 1)
	}
	var again influxql.Statement
	var err error
	if p, st := try(func() { again, err = influxql.ParseStatement(reparse) }); p != nil {
		return []ev.Finding{{Sig: "panic:reparse:" + form, Witness: text, Detail: fmt.Sprint(p) + "\n" + st, Case: cs, Rank: rank}}
	}
	if err == nil && astx.Equal(astx.Denoted, stmt, again) {
		return nil
	}
	// locate the cause
	if e := minimalFailingExpr(stmt); e != nil {
		shape := exprShape(e, 2)
		if isSignOnRightOfLevel5(e) {
			shape = "level5-operator-with-desugared-unary-sign-as-right-operand"
		}
		return []ev.Finding{{Sig: "reprint-expr:" + shape, Witness: text,
			Detail: fmt.Sprintf("the sub-expression that prints as %q does not re-parse to itself; statement prints as %q", e.String(), printed), Case: cs, Rank: rank}}
	}
	if err != nil {
		return []ev.Finding{{Sig: "reprint-rejected:" + form + ":" + ev.SigSafe(errClass(err.Error())), Witness: text,
			Detail: fmt.Sprintf("String() = %q does not parse: %v", printed, err), Case: cs, Rank: rank}}
	}
	path, a, b := astx.Diff(astx.Denoted, stmt, again)
	return []ev.Finding{{Sig: "reprint-differs:" + form + ":" + astx.GenericPath(path) + ":" + astx.ValueClass(a) + "→" + astx.ValueClass(b), Witness: text,
		Detail: fmt.Sprintf("String() = %q re-parses differently at %s: %s vs %s", printed, path, a, b), Case: cs, Rank: rank}}
}

func c02body(c *xplore.Ctx) (text string, form string, fs []ev.Finding, skipped bool) {
	g := gram.New(c)
	spec := gram.Statement(g)
	if g.InvalidWhy != "" {
		return "", spec.Form, nil, true
	}
	text = gram.Render(c, spec.Toks)
	stmt, err := influxql.ParseStatement(text)
	if err != nil {
		return text, spec.Form, nil, true // acceptance is C01's; C02 quantifies over accepted statements
	}
	return text, spec.Form, c02roundTrip(stmt, text, ev.SigSafe(spec.Form), vecCase{Vector: c.Vector()}, c.TotalCost()), false
}

func init() {
	register(&Check{ID: "C02", Run: c02run, Replay: func(raw json.RawMessage) []ev.Finding {
		var probe map[string]json.RawMessage
		if json.Unmarshal(raw, &probe) != nil {
			return nil
		}
		if _, ok := probe["query"]; ok {
			var m struct {
				Query []int `json:"query"`
			}
			json.Unmarshal(raw, &m)
			return c02query(m.Query)
		}
		if _, ok := probe["text"]; ok {
			var m map[string]string
			json.Unmarshal(raw, &m)
			stmt, err := influxql.ParseStatement(m["text"])
			if err != nil {
				return nil
			}
			fs := c02roundTrip(stmt, m["text"], "any", m, 0)
			for i := range fs {
				fs[i].Sig = "empty-identifier-not-printed:" + c02emptyKind(m["text"])
			}
			return fs
		}
		var c vecCase
		json.Unmarshal(raw, &c)
		var out []ev.Finding
		xplore.Replay(func(x *xplore.Ctx) { _, _, out, _ = c02body(x) }, c.Vector)
		return out
	}})
}

// Statements with an empty quoted identifier: the parser accepts them although the README grammar requires at least
// one character, so the grammar model does not produce them; they are probed here so that the known printer defect
// (an empty name is printed as nothing, or as the :MEASUREMENT back-reference) stays visible under its own signature.
var c02emptyNames = []string{`SELECT a FROM ""`, `SELECT a INTO "" FROM m`, `SELECT a FROM db0.rp0.""`, `SHOW MEASUREMENTS ON "".rp0`, `SHOW MEASUREMENTS ON "".*`,
	`SELECT "" FROM m`, `DROP DATABASE ""`, `SHOW TAG VALUES FROM "" WITH KEY = k`, `DELETE FROM ""`, `SELECT a AS "" FROM m`, `SELECT a FROM m GROUP BY ""`}

func c02emptyKind(t string) string {
	switch {
	case strings.Contains(t, `INTO ""`):
		return "target-name"
	case strings.Contains(t, `ON ""`):
		return "database-in-ON"
	case strings.Contains(t, `FROM ""`), strings.Contains(t, `.""`):
		return "measurement-name"
	}
	return "other"
}

// c02query: a query of several statements is printed as a whole (Query.String, Statements.String) and read back with
// ParseQuery; the statements come from the C16 pool and are referred to by index.
func c02query(idx []int) []ev.Finding {
	var parts []string
	for _, i := range idx {
		if i < 0 || i >= len(c16pool) {
			return nil
		}
		if strings.Contains(c16pool[i], "PASSWORD") {
			return nil // printed redacted, by design not re-parsable
		}
		parts = append(parts, c16pool[i])
	}
	text := strings.Join(parts, "; ")
	cs := map[string][]int{"query": idx}
	q, err := influxql.ParseQuery(text)
	if err != nil {
		return nil // acceptance of joined statements is C16's
	}
	var out []ev.Finding
	for name, printed := range map[string]string{"Query.String": q.String(), "Statements.String": q.Statements.String()} {
		again, err := influxql.ParseQuery(printed)
		if err != nil {
			out = append(out, ev.Finding{Sig: "reprint-rejected:query:" + name, Witness: text, Detail: fmt.Sprintf("%s = %q does not parse: %v", name, printed, err), Case: cs, Rank: len(idx)})
			continue
		}
		if !astx.Equal(astx.Denoted, q.Statements, again.Statements) {
			path, a, b := astx.Diff(astx.Denoted, q.Statements, again.Statements)
			out = append(out, ev.Finding{Sig: "reprint-differs:query:" + name, Witness: text, Detail: fmt.Sprintf("%s = %q re-parses differently at %s: %s vs %s", name, printed, path, a, b), Case: cs, Rank: len(idx)})
		}
	}
	return out
}

func c02run(r *ev.Run) {
	// queries of one to three statements
	np := len(c16pool)
	var seqs [][]int
	for a := 0; a < np; a++ {
		seqs = append(seqs, []int{a})
		for b := 0; b < np; b++ {
			seqs = append(seqs, []int{a, b})
			for c := 0; c < np; c++ {
				seqs = append(seqs, []int{a, b, c})
			}
		}
	}
	for _, sq := range seqs {
		r.Eval()
		r.State(astx.HashString(fmt.Sprint("Q|", sq)), len(sq) > 1)
		for _, f := range c02query(sq) {
			r.Report(f)
		}
	}
	r.Set("queries_of_1_to_3_statements", len(seqs))
	for _, t := range c02emptyNames {
		stmt, err := influxql.ParseStatement(t)
		if err != nil {
			continue
		}
		r.Eval()
		r.State(astx.HashString("E|"+t), true)
		for _, f := range c02roundTrip(stmt, t, "any", map[string]string{"text": t}, len(t)) {
			f.Sig = "empty-identifier-not-printed:" + c02emptyKind(t)
			r.Report(f)
		}
	}
	sets := []boundSet{{"struct<=2,value<=1", []int{2, 0, 1}}, {"struct<=3", []int{3, 0, 0}}}
	if thorough(r) {
		sets = []boundSet{{"struct<=3,value<=1", []int{3, 0, 1}}, {"struct<=2,value<=2", []int{2, 0, 2}}}
	}
	runGrammar(r, sets, c02body)
	r.Rule = "every statement the grammar model generates within the deviation bounds (values include names needing quotes/escapes, keywords as names, extreme and fractional numbers and durations, negated operands, regexes with slashes, subqueries) that the parser accepts is printed with String(), re-parsed and compared structurally; passwords are re-inserted for the two redacting printers. state = distinct statement text; every counted case is an accepted statement. In addition every query of 1-3 statements from a 12-statement pool: Query.String() and Statements.String() are read back with ParseQuery and compared"
}
