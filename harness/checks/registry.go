// Package checks holds one file per property.
package checks

import (
	"encoding/json"
	"sort"

	"verif/harness/ev"
)

// Check is one registered property check.
type Check struct {
	ID     string
	Run    func(r *ev.Run)                        // explores; reports findings through r
	Replay func(raw json.RawMessage) []ev.Finding // re-evaluates one serialised case, no search
}

var registry = map[string]*Check{}

func register(c *Check) { registry[c.ID] = c }

// Get returns the check for a property id.
func Get(id string) *Check { return registry[id] }

// IDs lists the registered ids.
func IDs() []string {
	var s []string
	for k := range registry {
		s = append(s, k)
	}
	sort.Strings(s)
	return s
}

func thorough(r *ev.Run) bool { return r.Tier == "thorough" }
