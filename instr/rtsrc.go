package main

// rtSource is the virtual package github.com/influxdata/influxql/verifrt that exists only in the overlay.
const rtSource = `// Package verifrt is the runtime of the C17 instrumentation (overlay only).
package verifrt

import "unsafe"

// Access is one instrumented memory access.
type Access struct {
	Addr  uintptr
	Size  uintptr
	Write bool
	Map   bool // Addr identifies a map object rather than a byte range
	Site  int32
}

// Hook receives every access while it is set. It is only ever set while a single goroutine of the
// instrumented package runs at a time (solo recording or the cooperative scheduler).
var Hook func(Access)

// SyncHook receives every operation of the sync / atomic shims: kind is one of the Sync* constants, obj the
// address of the synchronisation object. It returns once the operation may proceed.
var SyncHook func(kind int, obj unsafe.Pointer)

const (
	SyncLock = iota
	SyncUnlock
	SyncRLock
	SyncRUnlock
	SyncOnce
	SyncPoolGet
	SyncPoolPut
	SyncAtomic
	SyncWaitGroup
	SyncMapOp
)

func R[T any](p *T, site int) *T {
	if Hook != nil && p != nil {
		Hook(Access{Addr: uintptr(unsafe.Pointer(p)), Size: unsafe.Sizeof(*p), Site: int32(site)})
	}
	return p
}

func W[T any](p *T, site int) *T {
	if Hook != nil && p != nil {
		Hook(Access{Addr: uintptr(unsafe.Pointer(p)), Size: unsafe.Sizeof(*p), Write: true, Site: int32(site)})
	}
	return p
}

func mapAddr[M ~map[K]V, K comparable, V any](m M) uintptr { return *(*uintptr)(unsafe.Pointer(&m)) }

func RMap[M ~map[K]V, K comparable, V any](m M, site int) M {
	if Hook != nil && m != nil {
		Hook(Access{Addr: mapAddr(m), Size: 1, Map: true, Site: int32(site)})
	}
	return m
}

func WMap[M ~map[K]V, K comparable, V any](m M, site int) M {
	if Hook != nil && m != nil {
		Hook(Access{Addr: mapAddr(m), Size: 1, Write: true, Map: true, Site: int32(site)})
	}
	return m
}

// RSliceAll records a read of every element of s.
func RSliceAll[S ~[]E, E any](s S, site int) S {
	if Hook != nil && len(s) > 0 {
		var e E
		Hook(Access{Addr: uintptr(unsafe.Pointer(&s[0])), Size: uintptr(len(s)) * unsafe.Sizeof(e), Site: int32(site)})
	}
	return s
}

// WSliceAll records a write of every element of s (copy destination).
func WSliceAll[S ~[]E, E any](s S, site int) S {
	if Hook != nil && len(s) > 0 {
		var e E
		Hook(Access{Addr: uintptr(unsafe.Pointer(&s[0])), Size: uintptr(len(s)) * unsafe.Sizeof(e), Write: true, Site: int32(site)})
	}
	return s
}

// WAppend records the write append may make into the spare capacity of s.
func WAppend[S ~[]E, E any](s S, site int) S {
	if Hook != nil && cap(s) > len(s) {
		var e E
		full := s[:cap(s)]
		Hook(Access{Addr: uintptr(unsafe.Pointer(&full[len(s)])), Size: uintptr(cap(s)-len(s)) * unsafe.Sizeof(e), Write: true, Site: int32(site)})
	}
	return s
}

// Sync is called by the shims.
func Sync(kind int, obj unsafe.Pointer) {
	if SyncHook != nil {
		SyncHook(kind, obj)
	}
}
`

// vsyncSource replaces package sync inside the instrumented package: every operation is a scheduling point
// of the cooperative scheduler, and blocking is modelled (the scheduler never runs a thread that waits).
const vsyncSource = `// Package vsync is the shim that replaces "sync" in the instrumented package (overlay only).
package vsync

import (
	"unsafe"

	"github.com/influxdata/influxql/verifrt"
)

type Locker interface {
	Lock()
	Unlock()
}

type Mutex struct{ _ [1]byte }

func (m *Mutex) Lock()         { verifrt.Sync(verifrt.SyncLock, unsafe.Pointer(m)) }
func (m *Mutex) Unlock()       { verifrt.Sync(verifrt.SyncUnlock, unsafe.Pointer(m)) }
func (m *Mutex) TryLock() bool { verifrt.Sync(verifrt.SyncLock, unsafe.Pointer(m)); return true }

type RWMutex struct{ _ [1]byte }

func (m *RWMutex) Lock()    { verifrt.Sync(verifrt.SyncLock, unsafe.Pointer(m)) }
func (m *RWMutex) Unlock()  { verifrt.Sync(verifrt.SyncUnlock, unsafe.Pointer(m)) }
func (m *RWMutex) RLock()   { verifrt.Sync(verifrt.SyncRLock, unsafe.Pointer(m)) }
func (m *RWMutex) RUnlock() { verifrt.Sync(verifrt.SyncRUnlock, unsafe.Pointer(m)) }
func (m *RWMutex) RLocker() Locker { return rlocker{m} }

type rlocker struct{ m *RWMutex }

func (r rlocker) Lock()   { r.m.RLock() }
func (r rlocker) Unlock() { r.m.RUnlock() }

type Once struct {
	done bool
	m    Mutex
}

func (o *Once) Do(f func()) {
	verifrt.Sync(verifrt.SyncOnce, unsafe.Pointer(o))
	o.m.Lock()
	defer o.m.Unlock()
	if !o.done {
		defer func() { o.done = true }()
		f()
	}
}

func OnceFunc(f func()) func() {
	var o Once
	return func() { o.Do(f) }
}

func OnceValue[T any](f func() T) func() T {
	var o Once
	var v T
	return func() T { o.Do(func() { v = f() }); return v }
}

// Pool hands back the most recently returned object first: the adversarial (and legal) behaviour.
type Pool struct {
	New   func() any
	items []any
}

func (p *Pool) Get() any {
	verifrt.Sync(verifrt.SyncPoolGet, unsafe.Pointer(p))
	if n := len(p.items); n > 0 {
		x := p.items[n-1]
		p.items = p.items[:n-1]
		return x
	}
	if p.New != nil {
		return p.New()
	}
	return nil
}

func (p *Pool) Put(x any) {
	verifrt.Sync(verifrt.SyncPoolPut, unsafe.Pointer(p))
	p.items = append(p.items, x)
}

type WaitGroup struct{ n int }

func (w *WaitGroup) Add(d int) { verifrt.Sync(verifrt.SyncWaitGroup, unsafe.Pointer(w)); w.n += d }
func (w *WaitGroup) Done()     { w.Add(-1) }
func (w *WaitGroup) Wait() {
	for w.n > 0 {
		verifrt.Sync(verifrt.SyncWaitGroup, unsafe.Pointer(w))
	}
}

// Map is sync.Map over a plain map; every operation is a scheduling point.
type Map struct{ m map[any]any }

func (m *Map) op() {
	verifrt.Sync(verifrt.SyncMapOp, unsafe.Pointer(m))
	if m.m == nil {
		m.m = map[any]any{}
	}
}
func (m *Map) Load(k any) (any, bool) { m.op(); v, ok := m.m[k]; return v, ok }
func (m *Map) Store(k, v any)         { m.op(); m.m[k] = v }
func (m *Map) Delete(k any)           { m.op(); delete(m.m, k) }
func (m *Map) LoadOrStore(k, v any) (any, bool) {
	m.op()
	if old, ok := m.m[k]; ok {
		return old, true
	}
	m.m[k] = v
	return v, false
}
func (m *Map) LoadAndDelete(k any) (any, bool) { m.op(); v, ok := m.m[k]; delete(m.m, k); return v, ok }
func (m *Map) Range(f func(k, v any) bool) {
	m.op()
	for k, v := range m.m {
		if !f(k, v) {
			return
		}
	}
}
`

const vatomicSource = `// Package vatomic is the shim that replaces "sync/atomic" in the instrumented package (overlay only).
package vatomic

import (
	"unsafe"

	"github.com/influxdata/influxql/verifrt"
)

func pt(p unsafe.Pointer) { verifrt.Sync(verifrt.SyncAtomic, p) }

func AddInt32(p *int32, d int32) int32    { pt(unsafe.Pointer(p)); *p += d; return *p }
func AddInt64(p *int64, d int64) int64    { pt(unsafe.Pointer(p)); *p += d; return *p }
func AddUint32(p *uint32, d uint32) uint32 { pt(unsafe.Pointer(p)); *p += d; return *p }
func AddUint64(p *uint64, d uint64) uint64 { pt(unsafe.Pointer(p)); *p += d; return *p }
func LoadInt32(p *int32) int32            { pt(unsafe.Pointer(p)); return *p }
func LoadInt64(p *int64) int64            { pt(unsafe.Pointer(p)); return *p }
func LoadUint32(p *uint32) uint32         { pt(unsafe.Pointer(p)); return *p }
func LoadUint64(p *uint64) uint64         { pt(unsafe.Pointer(p)); return *p }
func LoadPointer(p *unsafe.Pointer) unsafe.Pointer { pt(unsafe.Pointer(p)); return *p }
func StoreInt32(p *int32, v int32)        { pt(unsafe.Pointer(p)); *p = v }
func StoreInt64(p *int64, v int64)        { pt(unsafe.Pointer(p)); *p = v }
func StoreUint32(p *uint32, v uint32)     { pt(unsafe.Pointer(p)); *p = v }
func StoreUint64(p *uint64, v uint64)     { pt(unsafe.Pointer(p)); *p = v }
func StorePointer(p *unsafe.Pointer, v unsafe.Pointer) { pt(unsafe.Pointer(p)); *p = v }
func SwapInt32(p *int32, v int32) int32   { pt(unsafe.Pointer(p)); o := *p; *p = v; return o }
func SwapInt64(p *int64, v int64) int64   { pt(unsafe.Pointer(p)); o := *p; *p = v; return o }
func CompareAndSwapInt32(p *int32, o, n int32) bool {
	pt(unsafe.Pointer(p))
	if *p == o {
		*p = n
		return true
	}
	return false
}
func CompareAndSwapInt64(p *int64, o, n int64) bool {
	pt(unsafe.Pointer(p))
	if *p == o {
		*p = n
		return true
	}
	return false
}
func CompareAndSwapUint32(p *uint32, o, n uint32) bool {
	pt(unsafe.Pointer(p))
	if *p == o {
		*p = n
		return true
	}
	return false
}
func CompareAndSwapUint64(p *uint64, o, n uint64) bool {
	pt(unsafe.Pointer(p))
	if *p == o {
		*p = n
		return true
	}
	return false
}
func CompareAndSwapPointer(p *unsafe.Pointer, o, n unsafe.Pointer) bool {
	pt(unsafe.Pointer(p))
	if *p == o {
		*p = n
		return true
	}
	return false
}

type Value struct{ v any }

func (x *Value) Load() any   { pt(unsafe.Pointer(x)); return x.v }
func (x *Value) Store(v any) { pt(unsafe.Pointer(x)); x.v = v }
func (x *Value) Swap(v any) any { pt(unsafe.Pointer(x)); o := x.v; x.v = v; return o }
func (x *Value) CompareAndSwap(o, n any) bool {
	pt(unsafe.Pointer(x))
	if x.v == o {
		x.v = n
		return true
	}
	return false
}

type Bool struct{ v bool }

func (x *Bool) Load() bool   { pt(unsafe.Pointer(x)); return x.v }
func (x *Bool) Store(v bool) { pt(unsafe.Pointer(x)); x.v = v }
func (x *Bool) Swap(v bool) bool { pt(unsafe.Pointer(x)); o := x.v; x.v = v; return o }
func (x *Bool) CompareAndSwap(o, n bool) bool {
	pt(unsafe.Pointer(x))
	if x.v == o {
		x.v = n
		return true
	}
	return false
}

type Int32 struct{ v int32 }

func (x *Int32) Load() int32       { pt(unsafe.Pointer(x)); return x.v }
func (x *Int32) Store(v int32)     { pt(unsafe.Pointer(x)); x.v = v }
func (x *Int32) Add(d int32) int32 { pt(unsafe.Pointer(x)); x.v += d; return x.v }
func (x *Int32) CompareAndSwap(o, n int32) bool {
	pt(unsafe.Pointer(x))
	if x.v == o {
		x.v = n
		return true
	}
	return false
}

type Int64 struct{ v int64 }

func (x *Int64) Load() int64       { pt(unsafe.Pointer(x)); return x.v }
func (x *Int64) Store(v int64)     { pt(unsafe.Pointer(x)); x.v = v }
func (x *Int64) Add(d int64) int64 { pt(unsafe.Pointer(x)); x.v += d; return x.v }
func (x *Int64) Swap(v int64) int64 { pt(unsafe.Pointer(x)); o := x.v; x.v = v; return o }
func (x *Int64) CompareAndSwap(o, n int64) bool {
	pt(unsafe.Pointer(x))
	if x.v == o {
		x.v = n
		return true
	}
	return false
}

type Uint32 struct{ v uint32 }

func (x *Uint32) Load() uint32        { pt(unsafe.Pointer(x)); return x.v }
func (x *Uint32) Store(v uint32)      { pt(unsafe.Pointer(x)); x.v = v }
func (x *Uint32) Add(d uint32) uint32 { pt(unsafe.Pointer(x)); x.v += d; return x.v }
func (x *Uint32) CompareAndSwap(o, n uint32) bool {
	pt(unsafe.Pointer(x))
	if x.v == o {
		x.v = n
		return true
	}
	return false
}

type Uint64 struct{ v uint64 }

func (x *Uint64) Load() uint64        { pt(unsafe.Pointer(x)); return x.v }
func (x *Uint64) Store(v uint64)      { pt(unsafe.Pointer(x)); x.v = v }
func (x *Uint64) Add(d uint64) uint64 { pt(unsafe.Pointer(x)); x.v += d; return x.v }
func (x *Uint64) CompareAndSwap(o, n uint64) bool {
	pt(unsafe.Pointer(x))
	if x.v == o {
		x.v = n
		return true
	}
	return false
}

type Pointer[T any] struct{ v *T }

func (x *Pointer[T]) Load() *T   { pt(unsafe.Pointer(x)); return x.v }
func (x *Pointer[T]) Store(v *T) { pt(unsafe.Pointer(x)); x.v = v }
func (x *Pointer[T]) Swap(v *T) *T { pt(unsafe.Pointer(x)); o := x.v; x.v = v; return o }
func (x *Pointer[T]) CompareAndSwap(o, n *T) bool {
	pt(unsafe.Pointer(x))
	if x.v == o {
		x.v = n
		return true
	}
	return false
}
`
