package checks

import (
	"encoding/json"
	"fmt"
	"regexp"
	"sort"
	"strings"
	"time"

	"github.com/influxdata/influxql"

	"verif/harness/astx"
	"verif/harness/ev"
	"verif/harness/gram"
	"verif/harness/xplore"
)

// C13 — every operation on a parsed statement is total.

type c13op struct {
	name string
	run  func(stmt influxql.Statement, sel *influxql.SelectStatement)
}

var c13clock = time.Date(2020, 3, 1, 10, 0, 0, 0, time.UTC)

type renamer struct{}

func (renamer) Rewrite(n influxql.Node) influxql.Node {
	if v, ok := n.(*influxql.VarRef); ok {
		return &influxql.VarRef{Val: v.Val + "_r", Type: v.Type}
	}
	return n
}

// operations that apply to any statement
var c13stmtOps = []c13op{
	{"String", func(s influxql.Statement, _ *influxql.SelectStatement) { _ = s.String() }},
	{"RequiredPrivileges", func(s influxql.Statement, _ *influxql.SelectStatement) { _, _ = s.RequiredPrivileges() }},
	{"DefaultDatabase", func(s influxql.Statement, _ *influxql.SelectStatement) {
		if d, ok := s.(influxql.HasDefaultDatabase); ok {
			_ = d.DefaultDatabase()
		}
	}},
	{"WalkFunc", func(s influxql.Statement, _ *influxql.SelectStatement) { influxql.WalkFunc(s, func(influxql.Node) {}) }},
	{"RewriteFunc(identity)", func(s influxql.Statement, _ *influxql.SelectStatement) {
		influxql.RewriteFunc(s, func(n influxql.Node) influxql.Node { return n })
	}},
	{"Rewrite(renaming)", func(s influxql.Statement, _ *influxql.SelectStatement) { influxql.Rewrite(renamer{}, s) }},
	{"Query.String", func(s influxql.Statement, _ *influxql.SelectStatement) {
		_ = (&influxql.Query{Statements: influxql.Statements{s, s}}).String()
	}},
}

// c13callTyper types field references through a schema and calls by name; unknown functions are an error.
type c13callTyper struct{ influxql.TypeMapper }

func (c13callTyper) CallType(name string, args []influxql.DataType) (influxql.DataType, error) {
	switch name {
	case "mean", "percentile", "derivative", "holt_winters":
		return influxql.Float, nil
	case "count", "elapsed":
		return influxql.Integer, nil
	case "top", "bottom", "max", "sample", "distinct":
		if len(args) > 0 {
			return args[0], nil
		}
		return influxql.Unknown, nil
	case "unknownfn":
		return influxql.Unknown, fmt.Errorf("unknown function %s", name)
	}
	return influxql.Unknown, nil
}

func c13point() map[string]interface{} {
	return map[string]interface{}{"x": 1.5, "y": int64(2), "a": "v", "host": "h", "time": int64(5), "b": true, "u": uint64(3)}
}

// operations on a SELECT (top level, EXPLAIN body, CQ body, or subquery)
var c13selOps = []c13op{
	{"Clone", func(_ influxql.Statement, s *influxql.SelectStatement) { _ = s.Clone().String() }},
	{"ColumnNames", func(_ influxql.Statement, s *influxql.SelectStatement) { _ = s.ColumnNames() }},
	{"FieldExprByName", func(_ influxql.Statement, s *influxql.SelectStatement) {
		for _, n := range append(s.Fields.Names(), "x", "host", "") {
			s.FieldExprByName(n)
		}
	}},
	{"Fields.Names/AliasNames", func(_ influxql.Statement, s *influxql.SelectStatement) {
		_ = s.Fields.Names()
		_ = s.Fields.AliasNames()
	}},
	{"ExprNames", func(_ influxql.Statement, s *influxql.SelectStatement) {
		_ = influxql.ExprNames(s.Condition)
		for _, f := range s.Fields {
			_ = influxql.ExprNames(f.Expr)
		}
	}},
	{"HasTimeExpr", func(_ influxql.Statement, s *influxql.SelectStatement) { _ = influxql.HasTimeExpr(s.Condition) }},
	{"GroupByInterval", func(_ influxql.Statement, s *influxql.SelectStatement) { _, _ = s.GroupByInterval() }},
	{"GroupByOffset", func(_ influxql.Statement, s *influxql.SelectStatement) { _, _ = s.GroupByOffset() }},
	{"Dimensions.Normalize", func(_ influxql.Statement, s *influxql.SelectStatement) { _, _ = s.Dimensions.Normalize() }},
	{"RewriteRegexConditions", func(_ influxql.Statement, s *influxql.SelectStatement) { s.RewriteRegexConditions(); _ = s.String() }},
	{"RewriteDistinct", func(_ influxql.Statement, s *influxql.SelectStatement) { s.RewriteDistinct(); _ = s.String() }},
	{"RewriteTimeFields", func(_ influxql.Statement, s *influxql.SelectStatement) { s.RewriteTimeFields(); _ = s.ColumnNames() }},
	{"RewriteFields(empty)", func(_ influxql.Statement, s *influxql.SelectStatement) { c13rewrite(s, 0) }},
	{"RewriteFields(schema1)", func(_ influxql.Statement, s *influxql.SelectStatement) { c13rewrite(s, 1) }},
	{"RewriteFields(schema2)", func(_ influxql.Statement, s *influxql.SelectStatement) { c13rewrite(s, 2) }},
	{"Reduce(nil)", func(_ influxql.Statement, s *influxql.SelectStatement) { _ = s.Reduce(nil).String() }},
	{"Reduce(clock)", func(_ influxql.Statement, s *influxql.SelectStatement) {
		_ = s.Reduce(&influxql.NowValuer{Now: c13clock}).String()
	}},
	{"Reduce(zero clock)", func(_ influxql.Statement, s *influxql.SelectStatement) { _ = s.Reduce(&influxql.NowValuer{}).String() }},
	{"Reduce(fields,values)", func(_ influxql.Statement, s *influxql.SelectStatement) {
		v := influxql.MultiValuer(&influxql.NowValuer{Now: c13clock, Location: time.FixedZone("Z", 3600)}, influxql.MapValuer(c13point()))
		for _, f := range s.Fields {
			_ = influxql.Reduce(f.Expr, v)
		}
		for _, d := range s.Dimensions {
			_ = influxql.Reduce(d.Expr, v)
		}
		_ = influxql.Reduce(s.Condition, v)
	}},
	{"ConditionExpr", func(_ influxql.Statement, s *influxql.SelectStatement) {
		_, _, _ = influxql.ConditionExpr(s.Condition, &influxql.NowValuer{Now: c13clock})
		_, _, _ = influxql.ConditionExpr(s.Condition, nil)
	}},
	{"Eval/EvalBool", func(_ influxql.Statement, s *influxql.SelectStatement) {
		m := c13point()
		_ = influxql.EvalBool(s.Condition, m)
		_ = influxql.Eval(s.Condition, nil)
		ve := influxql.ValuerEval{Valuer: influxql.MultiValuer(&influxql.NowValuer{Now: c13clock}, influxql.MapValuer(m)), IntegerFloatDivision: true}
		for _, f := range s.Fields {
			_ = ve.Eval(f.Expr)
		}
		for _, d := range s.Dimensions {
			_ = ve.Eval(d.Expr)
		}
	}},
	{"EvalType", func(_ influxql.Statement, s *influxql.SelectStatement) {
		for _, sc := range c13schemas {
			for _, f := range s.Fields {
				_ = influxql.EvalType(f.Expr, s.Sources, sc)
				tv := influxql.TypeValuerEval{TypeMapper: sc, Sources: s.Sources}
				_, _ = tv.EvalType(f.Expr)
			}
			if s.Condition != nil {
				_ = influxql.EvalType(s.Condition, s.Sources, sc)
			}
		}
	}},
	{"EvalType(call mapper)", func(_ influxql.Statement, s *influxql.SelectStatement) {
		// a type mapper that also types calls, alone and behind MultiTypeMapper; nil mapper
		for _, sc := range c13schemas {
			for _, tm := range []influxql.TypeMapper{c13callTyper{sc}, influxql.MultiTypeMapper(sc, c13callTyper{sc}), influxql.MultiTypeMapper(), nil} {
				for _, f := range s.Fields {
					_ = influxql.EvalType(f.Expr, s.Sources, tm)
					tv := influxql.TypeValuerEval{TypeMapper: tm, Sources: s.Sources}
					if _, err := tv.EvalType(f.Expr); err != nil {
						_ = err.Error()
					}
				}
				if s.Condition != nil {
					tv := influxql.TypeValuerEval{TypeMapper: tm, Sources: s.Sources}
					if _, err := tv.EvalType(s.Condition); err != nil {
						_ = err.Error()
					}
				}
			}
		}
	}},
	{"sort/partition/conjunctions", func(_ influxql.Statement, s *influxql.SelectStatement) {
		c := s.Clone()
		sort.Sort(c.Fields)
		_ = c.String()
		_ = influxql.Measurements(s.Sources.Measurements()).String()
		parts := influxql.ConjunctionsToExprSlice(s.Condition)
		_ = influxql.ExprsToConjunction(parts...)
		_ = influxql.ExprsToConjunction()
		pass, fail, _ := influxql.PartitionExpr(influxql.CloneExpr(s.Condition), func(e influxql.Expr) (bool, error) {
			return influxql.HasTimeExpr(e), nil
		})
		for _, e := range []influxql.Expr{pass, fail} {
			if e != nil {
				_ = e.String()
			}
		}
		_, _, _ = influxql.PartitionExpr(s.Condition, func(e influxql.Expr) (bool, error) { return false, fmt.Errorf("stop") })
		nv := influxql.NowValuer{Now: c13clock}
		_, _ = nv.Value("now()")
		_, _ = nv.Value("x")
		var tr influxql.TimeRange
		_, _, _, _ = tr.IsZero(), tr.MinTime(), tr.MaxTime(), tr.MinTimeNano()
	}},
	{"SetTimeRange", func(_ influxql.Statement, s *influxql.SelectStatement) {
		_ = s.SetTimeRange(c13clock, c13clock.Add(time.Hour))
		_ = s.SetTimeRange(c13clock.Add(time.Hour), c13clock.Add(2*time.Hour))
		_ = s.String()
	}},
	{"misc accessors", func(_ influxql.Statement, s *influxql.SelectStatement) {
		_ = s.TimeAscending()
		_ = s.TimeFieldName()
		_ = s.HasWildcard()
		_ = s.HasFieldWildcard()
		_ = s.HasDimensionWildcard()
		_ = s.Sources.Measurements()
		_ = s.Sources.String()
		_, _ = s.Sources.RequiredPrivileges()
		_ = influxql.IsSelector(nil)
		for _, f := range s.Fields {
			_ = influxql.IsSelector(f.Expr)
			_ = influxql.ContainsVarRef(f.Expr)
			_ = f.Name()
		}
	}},
	{"CloneExpr", func(_ influxql.Statement, s *influxql.SelectStatement) {
		_ = influxql.CloneExpr(s.Condition)
		for _, f := range s.Fields {
			_ = influxql.CloneExpr(f.Expr)
		}
		for _, d := range s.Dimensions {
			_ = influxql.CloneExpr(d.Expr)
		}
	}},
	{"RewriteExpr(identity)", func(_ influxql.Statement, s *influxql.SelectStatement) {
		s.Condition = influxql.RewriteExpr(s.Condition, func(e influxql.Expr) influxql.Expr { return e })
		_ = s.String()
	}},
	{"RewriteExpr(renaming)", func(_ influxql.Statement, s *influxql.SelectStatement) {
		s.Condition = influxql.RewriteExpr(s.Condition, func(e influxql.Expr) influxql.Expr {
			if v, ok := e.(*influxql.VarRef); ok {
				return &influxql.VarRef{Val: v.Val + "_r"}
			}
			return e
		})
		_ = s.String()
	}},
	{"RewriteExpr(drop tag predicates)", func(_ influxql.Statement, s *influxql.SelectStatement) {
		// predicates may be dropped where RewriteExpr supports it: under AND / OR / parentheses from the root
		// (returning nil for a call argument is caller misuse and is not exercised)
		droppable := map[influxql.Expr]bool{}
		var mark func(e influxql.Expr)
		mark = func(e influxql.Expr) {
			droppable[e] = true
			switch x := e.(type) {
			case *influxql.BinaryExpr:
				if x.Op == influxql.AND || x.Op == influxql.OR {
					mark(x.LHS)
					mark(x.RHS)
				}
			case *influxql.ParenExpr:
				mark(x.Expr)
			}
		}
		if s.Condition != nil {
			mark(s.Condition)
		}
		s.Condition = influxql.RewriteExpr(s.Condition, func(e influxql.Expr) influxql.Expr {
			if b, ok := e.(*influxql.BinaryExpr); ok && droppable[e] {
				if v, ok := b.LHS.(*influxql.VarRef); ok && v.Val == "a" {
					return nil
				}
			}
			return e
		})
		if s.Condition != nil {
			_ = s.String()
		}
	}},
	{"MarshalBinary", func(_ influxql.Statement, s *influxql.SelectStatement) {
		hasSub := false
		for _, src := range s.Sources {
			if _, ok := src.(*influxql.SubQuery); ok {
				hasSub = true
			}
		}
		if hasSub {
			return // documented: encoding subqueries is not supported
		}
		if b, err := s.Sources.MarshalBinary(); err == nil {
			var out influxql.Sources
			_ = out.UnmarshalBinary(b)
		}
	}},
}

func c13rewrite(s *influxql.SelectStatement, i int) {
	if out, err := s.RewriteFields(c13schemas[i]); err == nil && out != nil {
		_ = out.String()
		_ = out.ColumnNames()
	}
}

var digits = regexp.MustCompile(`[0-9]+`)
var hexAddr = regexp.MustCompile(`0x[0-9a-fA-F]+`)

func panicClass(p interface{}) string {
	var s string
	switch v := p.(type) {
	case error:
		s = v.Error()
	case string:
		s = v
	case fmt.Stringer:
		s = v.String()
	default:
		// a value of the library's own (a struct, a pointer): its printed form holds addresses, which differ from
		// run to run, so only the type goes into the signature
		s = fmt.Sprintf("value of type %T", p)
	}
	if i := strings.Index(s, "\n"); i > 0 {
		s = s[:i]
	}
	s = hexAddr.ReplaceAllString(s, "ADDR")
	s = digits.ReplaceAllString(s, "N")
	if len(s) > 90 {
		s = s[:90]
	}
	return ev.SigSafe(s)
}

// selects returns every SelectStatement reachable in stmt with a path label.
func c13selects(stmt influxql.Statement) []*influxql.SelectStatement {
	var out []*influxql.SelectStatement
	influxql.WalkFunc(stmt, func(n influxql.Node) {
		if s, ok := n.(*influxql.SelectStatement); ok {
			out = append(out, s)
		}
	})
	return out
}

// c13runText runs every operation, each on a freshly parsed statement.
func c13runText(text string, cs interface{}, rank int) (fs []ev.Finding, accepted bool, nops int) {
	probe, err := influxql.ParseStatement(text)
	if err != nil {
		return nil, false, 0
	}
	nsel := len(c13selects(probe))
	seen := map[string]bool{}
	report := func(op string, p interface{}, st string) {
		sig := "panic:" + ev.SigSafe(op) + ":" + panicClass(p)
		if !seen[sig] {
			seen[sig] = true
			fs = append(fs, ev.Finding{Sig: sig, Witness: text, Detail: fmt.Sprintf("%s panics: %v\n%s", op, p, trimStack(st)), Case: cs, Rank: rank})
		}
	}
	for _, op := range c13stmtOps {
		stmt, _ := influxql.ParseStatement(text)
		nops++
		if p, st := try(func() { op.run(stmt, nil) }); p != nil {
			report(op.name, p, st)
		}
	}
	for k := 0; k < nsel; k++ {
		for _, op := range c13selOps {
			stmt, _ := influxql.ParseStatement(text)
			sels := c13selects(stmt)
			if k >= len(sels) {
				break
			}
			nops++
			if p, st := try(func() { op.run(stmt, sels[k]) }); p != nil {
				report(op.name, p, st)
			}
		}
	}
	return fs, true, nops
}

func trimStack(st string) string {
	lines := strings.Split(st, "\n")
	var keep []string
	for _, l := range lines {
		if strings.Contains(l, "influxql.") && !strings.Contains(l, "harness") {
			keep = append(keep, strings.TrimSpace(l))
		}
		if len(keep) >= 4 {
			break
		}
	}
	return strings.Join(keep, " <- ")
}

// ---- odd shapes ------------------------------------------------------------------------------------------

var c13names = []string{"top", "bottom", "time", "fill", "mean", "count", "derivative", "percentile", "holt_winters", "elapsed", "now", "tz", "distinct", "unknownfn", "max", "sample"}
var c13args = []string{"x", "'str'", "1", "1.5", "1s", "0s", "-1s", "*", "/re/", "true", "(x)", "x + 1", "f()", "host", "-x"}
var c13positions = []string{
	"SELECT %s FROM m",
	"SELECT %s INTO t FROM m",
	"SELECT mean(x) FROM m GROUP BY %s",
	"SELECT x FROM m WHERE %s > 1",
	"SELECT x, %s AS al FROM (SELECT %s FROM m) GROUP BY time(1m), host",
}
var c13extra = []string{
	"SELECT x FROM m WHERE time > now() - 10s / 0.5", "SELECT x FROM m WHERE time > now() - 10s * 0.5", "SELECT x FROM m WHERE time > 10s / 0",
	"SELECT x FROM m WHERE time > 10s / -0.5", "SELECT x FROM m WHERE time > 10s / 0.0", "SELECT x % 0 FROM m", "SELECT x / 0 FROM m WHERE 1 % 0 = 0",
	"SELECT 10s / 0.5 FROM m", "SELECT 10s * 1.5, 10s / 3, 10s / 0.999 FROM m", "SELECT x FROM m WHERE a =~ /x/ + 1", "SELECT x FROM m WHERE a =~ /x/ AND b !~ /y/ * 2",
	"SELECT x FROM m WHERE a =~ /x/ = true", "SELECT x FROM m WHERE a =~ /^[^\\s\\S]$/ OR a !~ /^server[^\\w\\W]$/", "SELECT x FROM m WHERE a =~ /^$/ AND a =~ /^()$/ AND a !~ /^a{0}$/ AND a =~ /^(a|)$/",
	"SELECT x FROM m WHERE a =~ /^(?i)$/ AND a =~ /^[a-a]$/ AND a =~ /^\\b$/ AND a =~ /^(?:)$/ AND a =~ /^[[:alpha:]&&[^a-z]]$/", "SELECT x FROM m WHERE (a =~ /x/) OR a !~ /(/", "SELECT x FROM m GROUP BY time(0s)", "SELECT x FROM m GROUP BY time(0s, 1s)",
	"SELECT x FROM m GROUP BY time(-1s)", "SELECT x FROM m GROUP BY time(1s, 0s)", "SELECT x FROM m GROUP BY time(x)", "SELECT x FROM m GROUP BY time()", "SELECT x FROM m GROUP BY time(1s, 2s, 3s)",
	"SELECT x FROM m GROUP BY time('a')", "SELECT x FROM m GROUP BY time(1s, now())", "SELECT x FROM m GROUP BY time(1s, '2000-01-01T00:00:00Z')", "SELECT x FROM m GROUP BY f(1)", "SELECT x FROM m GROUP BY *, /re/, time(1s)",
	"SELECT \"\" FROM m", "SELECT * FROM m GROUP BY *", "SELECT /re/, * FROM /re/", "SELECT *::tag, *::field FROM m", "SELECT mean(*::tag) FROM m", "SELECT count(distinct(*)) FROM m",
	"SELECT top(/re/, 3), bottom(*, host, 2) FROM m", "SELECT x FROM m WHERE time = '2000-01-01' AND time > 'garbage'", "SELECT x FROM m WHERE time > '2000-01-01 00:00:00.1234567890'",
	"SELECT x FROM m WHERE time > -9223372036854775808 AND time < 9223372036854775807", "SELECT x FROM m WHERE time + 1 > 2 OR time > 1", "SELECT x FROM m WHERE 'a' + 'b' = 'ab' AND 1 + 1.5 > 2 AND true | false",
	"SELECT x FROM m WHERE now() - now() > 1s", "SELECT x FROM m WHERE '2000-01-01' - 1s < now() + '2000-01-01'", "SELECT x FROM m WHERE 1 + '2000-01-01T00:00:00Z' > time",
	"SELECT x FROM m WHERE 9223372036854775808 - 1 > -1 AND 18446744073709551615 * 2 < 3", "SELECT DISTINCT x FROM m", "SELECT count(DISTINCT x), mean(DISTINCT x) FROM m", "SELECT x FROM m fill(1) tz('UTC')",
	"SELECT time, time AS t, time FROM m", "SELECT x FROM m ORDER BY DESC LIMIT 0 SLIMIT 0", "SELECT x FROM m WHERE time > now() - 1h GROUP BY time(10m, now())",
}

// c13families: literal values in every operator slot, and strings that almost are timestamps.
//   - every arithmetic / bitwise / comparison operator between every pair of operand kinds, zero divisors included
//     (integer, integer above MaxInt64 = unsigned, float, duration, string, boolean, typed and untyped references);
//   - every prefix of two timestamp spellings as a string compared with time, with another string, and with a tag.
func c13families() []string {
	var out []string
	opnds := []string{"0", "2", "-1", "18446744073709551615", "9223372036854775808", "0.0", "1.5", "0s", "1h", "'s'", "true", "x", "x::integer", "x::unsigned", "x::float", "u::unsigned", "now()", "'2000-01-01T00:00:00Z'"}
	ops := []string{"+", "-", "*", "/", "%", "&", "|", "^", "=", "!=", "<", ">="}
	for _, o := range ops {
		for _, l := range opnds {
			for _, r := range opnds {
				out = append(out, "SELECT "+l+" "+o+" "+r+" FROM m")
				if o == "/" || o == "%" || o == "=" || o == "<" {
					out = append(out, "SELECT x FROM m WHERE "+l+" "+o+" "+r)
				}
			}
		}
	}
	for _, full := range []string{"2019-12-03T01:02:03.123456789Z", "2019-12-03 01:02:03.5", "2019-12-3", "2019-1-03 1:2:3"} {
		for n := 0; n <= len(full); n++ {
			s := "'" + full[:n] + "'"
			out = append(out, "SELECT x FROM m WHERE time >= "+s, "SELECT x FROM m WHERE "+s+" < time AND a = "+s,
				"SELECT x FROM m WHERE "+s+" = '2019-12-03'", "SELECT x FROM m WHERE '2019-12-03T00:00:00Z' != "+s, "SELECT x FROM m WHERE "+s+" + 1h > now()")
		}
	}
	return out
}

type c13oddCase struct {
	Text string `json:"text"`
}

func init() {
	register(&Check{ID: "C13", Run: c13run, Replay: func(raw json.RawMessage) []ev.Finding {
		var probe map[string]json.RawMessage
		if json.Unmarshal(raw, &probe) != nil {
			return nil
		}
		if _, ok := probe["text"]; ok {
			var c c13oddCase
			json.Unmarshal(raw, &c)
			fs, _, _ := c13runText(c.Text, c, 0)
			return fs
		}
		var c vecCase
		json.Unmarshal(raw, &c)
		var out []ev.Finding
		xplore.Replay(func(x *xplore.Ctx) { _, _, out, _ = c13gramBody(x) }, c.Vector)
		return out
	}})
}

func c13gramBody(c *xplore.Ctx) (text, form string, fs []ev.Finding, skipped bool) {
	g := gram.New(c)
	spec := gram.Statement(g)
	if g.InvalidWhy != "" {
		return "", spec.Form, nil, true
	}
	text = gram.Render(nil, spec.Toks)
	fs, ok, _ := c13runText(text, vecCase{Vector: c.Vector()}, c.TotalCost()*1000+len(text))
	return text, spec.Form, fs, !ok
}

// c13prefixBody: every proper prefix (cut at a token boundary) of a statement of the corpus. ParseStatement reads one
// statement and leaves the rest, so many prefixes are accepted: optional clauses cut off, and whatever a handler
// accepts although its operand is missing. What is accepted must survive every operation like any other statement.
func c13prefixBody(c *xplore.Ctx) (text, form string, fs []ev.Finding, skipped bool) {
	g := gram.New(c)
	g.NoValueAlts = true
	spec := gram.Statement(g)
	if g.InvalidWhy != "" || len(spec.Toks) < 2 {
		return "", spec.Form, nil, true
	}
	n := 1 + c.Free(len(spec.Toks)-1)
	text = gram.Render(nil, spec.Toks[:n])
	fs, ok, _ := c13runText(text, c13oddCase{Text: text}, c.TotalCost()*1000+len(text))
	return text, spec.Form + ":prefix", fs, !ok
}

func c13run(r *ev.Run) {
	th := thorough(r)
	sets := []boundSet{{"struct<=3", []int{3, 0, 0}}}
	if th {
		sets = []boundSet{{"struct<=2,value<=1", []int{2, 0, 1}}, {"struct<=3", []int{3, 0, 0}}}
	}
	runGrammar(r, sets, c13gramBody)
	first := r.Extra["bound_sets"]
	psets := []boundSet{{"prefixes: struct<=2 x every cut at a token boundary", []int{2, 0, 0}}}
	if th {
		psets = []boundSet{{"prefixes: struct<=3 x every cut at a token boundary", []int{3, 0, 0}}}
	}
	runGrammar(r, psets, c13prefixBody)
	r.Set("bound_sets", []interface{}{first, r.Extra["bound_sets"]})
	// odd shapes
	maxArgs := 2
	if th {
		maxArgs = 3
	}
	var argLists []string
	var rec func(cur []string)
	rec = func(cur []string) {
		argLists = append(argLists, strings.Join(cur, ", "))
		if len(cur) == maxArgs {
			return
		}
		for _, a := range c13args {
			rec(append(cur, a))
		}
	}
	rec(nil)
	var texts []string
	for _, p := range c13positions {
		for _, n := range c13names {
			for _, al := range argLists {
				call := n + "(" + al + ")"
				texts = append(texts, strings.ReplaceAll(p, "%s", call))
			}
		}
	}
	texts = append(texts, c13extra...)
	texts = append(texts, c13families()...)
	var accepted, ops int64
	var mu = make([]int64, 2)
	_ = mu
	parallelFor(len(texts), func(i int) {
		t := texts[i]
		fs, ok, n := c13runText(t, c13oddCase{Text: t}, len(t))
		if !ok {
			return
		}
		k := r.Eval()
		r.Trans(int64(n))
		r.State(astx.HashString("odd|"+t), true)
		r.Sample(k, func() interface{} { return t })
		for _, f := range fs {
			r.Report(f)
		}
	})
	_ = accepted
	_ = ops
	r.Set("odd_shape_texts_generated", len(texts))
	r.Set("operations_per_statement", len(c13stmtOps))
	r.Set("operations_per_select", len(c13selOps))
	r.Rule = fmt.Sprintf("statements = grammar-model corpus within the bound, every proper prefix of its statements cut at a token boundary that the parser accepts, + odd shapes (16 function names x every argument list of <=%d from 15 arguments x 5 positions, and %d hand-picked shapes: zero/negative intervals, fractional divisors, regex operators next to arithmetic, wildcards in odd places; plus every operator between every pair of 18 operand kinds and every prefix of four timestamp spellings as a string in five comparison contexts); on every accepted statement each of %d statement-level and, for every SELECT inside it, %d select-level operations is run on a freshly parsed copy with panics recovered. non-trivial = accepted by the parser", maxArgs, len(c13extra), len(c13stmtOps), len(c13selOps))
}
