#!/bin/sh
# Builds the harness once (warms the Go build cache) from files on disk only.
export GOFLAGS=-mod=mod GOPROXY=off GOSUMDB=off GOTOOLCHAIN=local
set -e
mkdir -p /verif/.build /verif/evidence /verif/replays
cp /repo/go.sum /verif/harness/go.sum
cd /verif/harness
go build -tags verif -o /verif/.build/vcheck.setup ./cmd/vcheck
rm -f /verif/.build/vcheck.setup
echo setup ok
