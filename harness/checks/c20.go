package checks

import (
	"encoding/json"
	"fmt"
	"strings"

	"github.com/influxdata/influxql"

	"verif/harness/astx"
	"verif/harness/ev"
)

// C20 — result column names are complete, stable and unambiguous.

type c20field struct {
	text   string
	alias  string // explicit alias ("" = none)
	extra  int    // VarRef arguments after the first of top()/bottom() (columns of their own when there is no INTO)
	isTime bool   // a bare `time` reference (removed by RewriteTimeFields)
}

var c20fields = []c20field{
	{"x", "", 0, false}, {"y", "", 0, false}, {"x AS y", "y", 0, false}, {"x AS x_1", "x_1", 0, false}, {"y AS x", "x", 0, false},
	{"x_1", "", 0, false}, {"mean(x)", "", 0, false}, {"mean(x) AS x", "x", 0, false}, {"max(y)", "", 0, false}, {"mean(y)", "", 0, false},
	{"x + y", "", 0, false}, {"x + 1", "", 0, false}, {"(x)", "", 0, false}, {"1", "", 0, false}, {"'s'", "", 0, false},
	{"time", "", 0, true}, {"time AS t", "t", 0, true},
	{"top(x, 2)", "", 0, false}, {"top(x, y, 2)", "", 1, false}, {"top(x, y, x_1, 2)", "", 2, false}, {"bottom(x, y, 2)", "", 1, false},
	{"top(x, y, 2) AS x", "x", 1, false}, {"mean(x) AS mean_1", "mean_1", 0, false}, {"x AS x_2", "x_2", 0, false},
	{"(top(x, y, 2))", "", 0, false}, {"(x + y) * x_1", "", 0, false}, {"x_2", "", 0, false},
	{"x AS x_3", "x_3", 0, false}, {"x AS x_4", "x_4", 0, false}, {"x AS x_5", "x_5", 0, false}, {"x AS x_6", "x_6", 0, false}, {"x AS x_7", "x_7", 0, false},
	{"x AS x_8", "x_8", 0, false}, {"x AS x_9", "x_9", 0, false}, {"1 + 2", "", 0, false}, {"(3 * 4)", "", 0, false},
	// 36-40: names with a percent sign (a name is data, never a format), selectors without arguments
	{`"cpu%"`, "", 0, false}, {`"load%d"`, "", 0, false}, {`"a%s" + 1`, "", 0, false}, {"top()", "", 0, false}, {"bottom()", "", 0, false},
	// 41-43: names with capital letters (a clash is a clash of names as written)
	{"Value", "", 0, false}, {"usageIdle * 2", "", 0, false}, {`"Ärger"`, "", 0, false},
}

var c20core = []int{0, 1, 2, 3, 4, 5, 6, 7, 15, 16, 18, 22, 23, 26}

type c20Case struct {
	Fields []int `json:"fields"`
	Into   bool  `json:"into"`
	Mode   int   `json:"mode"`             // 0 raw, 1 after RewriteTimeFields, 2 OmitTime, 3 named once, then every reference renamed in place
	Target int   `json:"target,omitempty"` // how the INTO target is written: 0 a name, 1 the :MEASUREMENT back-reference, 2 fully qualified, 3 with an empty policy
}

var c20targets = []string{"t", "db1.rp1.:MEASUREMENT", "db1.rp1.t", `"db 1"..t`}

func (c c20Case) text() string {
	var fs []string
	for _, f := range c.Fields {
		fs = append(fs, c20fields[f].text)
	}
	s := "SELECT " + strings.Join(fs, ", ")
	if c.Into {
		s += " INTO " + c20targets[c.Target]
	}
	return s + " FROM m"
}

func c20eval(c c20Case) []ev.Finding {
	text := c.text()
	wit := fmt.Sprintf("%s [mode %d]", text, c.Mode)
	stmt, err := influxql.ParseStatement(text)
	if err != nil {
		return []ev.Finding{{Sig: "generator:rejected", Witness: text, Detail: err.Error(), Case: c}}
	}
	sel := stmt.(*influxql.SelectStatement)
	var cols, cols2 []string
	var before, after string
	if p, st := try(func() {
		switch c.Mode {
		case 1:
			sel.RewriteTimeFields()
		case 2:
			sel.OmitTime = true
		case 4:
			sel.RewriteTimeFields()
			sel.OmitTime = true
		case 3:
			_ = sel.ColumnNames()
			influxql.WalkFunc(sel.Fields, func(n influxql.Node) {
				if v, ok := n.(*influxql.VarRef); ok && v.Val != "time" {
					v.Val = "r" + v.Val
				}
			})
		}
		before = astx.Dump(astx.Full, sel)
		cols = sel.ColumnNames()
		cols2 = sel.ColumnNames()
		// a pure function gives the same answer every time: eight more calls (an answer that depends on the iteration
		// order of a small map differs between two calls only now and then)
		more := 2
		for _, f := range c.Fields {
			if c20fields[f].extra >= 1 {
				more = 64 // several columns from one field: a small Go map iterates in its usual order seven times out of eight
			}
		}
		for k := 0; k < more && strings.Join(cols, "\x00") == strings.Join(cols2, "\x00"); k++ {
			cols2 = sel.ColumnNames()
		}
		after = astx.Dump(astx.Full, sel)
	}); p != nil {
		return []ev.Finding{{Sig: "panic:" + ev.SigSafe(fmt.Sprint(p)), Witness: wit, Detail: fmt.Sprint(p) + "\n" + st, Case: c}}
	}
	var out []ev.Finding
	if c.Mode == 3 {
		// a pure function of the statement: the statement as it is now, printed and parsed afresh, must name its columns the same
		if fresh, err := influxql.ParseStatement(sel.String()); err == nil {
			want := fresh.(*influxql.SelectStatement).ColumnNames()
			if strings.Join(want, "\x00") != strings.Join(cols, "\x00") {
				out = append(out, ev.Finding{Sig: "stale-after-in-place-rename", Witness: wit, Detail: fmt.Sprintf("after renaming, ColumnNames = %q but a fresh parse of %q gives %q", cols, sel.String(), want), Case: c, Rank: len(c.Fields)})
			}
		}
	}
	rep := func(sig, detail string) {
		out = append(out, ev.Finding{Sig: sig, Witness: wit, Detail: fmt.Sprintf("%s; ColumnNames = %q", detail, cols), Case: c, Rank: len(c.Fields)})
	}
	if before != after {
		rep("mutates-statement", "the statement changed across ColumnNames()")
	}
	if strings.Join(cols, "\x00") != strings.Join(cols2, "\x00") {
		rep("not-pure", fmt.Sprintf("second call gives %q", cols2))
	}
	// expected layout from the statement as it is now (after the mode's rewrite)
	type slot struct {
		alias string
		base  string // the name the column has when nothing clashes
	}
	var slots []slot
	for _, f := range sel.Fields {
		slots = append(slots, slot{f.Alias, f.Name()})
		if call, ok := f.Expr.(*influxql.Call); ok && !c.Into && (call.Name == "top" || call.Name == "bottom") && len(call.Args) > 1 {
			for _, a := range call.Args[1:] {
				if v, ok := a.(*influxql.VarRef); ok {
					slots = append(slots, slot{"", v.Val})
				}
			}
		}
	}
	// independent count from the generator's table (only valid when no field was removed by a rewrite)
	if c.Mode != 1 && c.Mode != 4 {
		n := 0
		for _, f := range c.Fields {
			n++
			if !c.Into {
				n += c20fields[f].extra
			}
		}
		if n != len(slots) {
			rep("generator:slot-count", fmt.Sprintf("generator expects %d field columns, statement has %d", n, len(slots)))
		}
	}
	off := 1
	if sel.OmitTime {
		off = 0
	}
	if len(cols) != len(slots)+off {
		rep("length", fmt.Sprintf("want %d columns", len(slots)+off))
		return out
	}
	// the time column is called "time" unless the statement carries an alias for it (with or without INTO)
	wantTime := "time"
	if sel.TimeAlias != "" {
		wantTime = sel.TimeAlias
	}
	if off == 1 && cols[0] != wantTime {
		rep("time-column", fmt.Sprintf("column 0 should be %q", wantTime))
	}
	if got := sel.TimeFieldName(); got != wantTime {
		rep("time-field-name", fmt.Sprintf("TimeFieldName() = %q, want %q", got, wantTime))
	}
	aliases := map[string]int{}
	for i, s := range slots {
		if s.alias != "" {
			aliases[s.alias]++
			if cols[i+off] != s.alias {
				rep("alias-not-verbatim", fmt.Sprintf("column %d should be the alias %q", i+off, s.alias))
			}
		}
	}
	// a generated name is the plain name or the plain name with a numeric suffix: "_" and a decimal number
	for i, sl := range slots {
		if sl.alias != "" || i+off >= len(cols) {
			continue
		}
		name := cols[i+off]
		if name == sl.base {
			continue
		}
		rest := strings.TrimPrefix(name, sl.base+"_")
		okForm := rest != name && rest != "" && (rest == "0" || rest[0] != '0')
		for _, ch := range rest {
			if ch < '0' || ch > '9' {
				okForm = false
			}
		}
		if !okForm {
			rep("suffix-form", fmt.Sprintf("column %d is %q; the field's own name is %q, so it must be that or %q plus a decimal number", i+off, name, sl.base, sl.base+"_"))
			break
		}
	}
	distinctAliases := true
	for _, n := range aliases {
		if n > 1 {
			distinctAliases = false
		}
	}
	if distinctAliases {
		seen := map[string]int{}
		for i := off; i < len(cols); i++ {
			if j, dup := seen[cols[i]]; dup {
				rep("duplicate-column", fmt.Sprintf("columns %d and %d are both %q although explicit aliases are distinct", j, i, cols[i]))
				break
			}
			seen[cols[i]] = i
		}
	}
	return out
}

func init() {
	register(&Check{ID: "C20", Run: c20run, Replay: func(raw json.RawMessage) []ev.Finding {
		var c c20Case
		if json.Unmarshal(raw, &c) != nil {
			return nil
		}
		return c20eval(c)
	}})
}

func c20run(r *ev.Run) {
	th := thorough(r)
	maxLen := 3
	if th {
		maxLen = 4
	}
	coreLen := 4
	if th {
		coreLen = 5
	}
	run := func(c c20Case) {
		n := r.Eval()
		r.Trans(int64(len(c.Fields)))
		dupNames := false // non-trivial: some name collides (the interesting region)
		seen := map[string]bool{}
		for _, f := range c.Fields {
			k := c20fields[f].alias
			if k == "" {
				k = c20fields[f].text
			}
			if seen[k] {
				dupNames = true
			}
			seen[k] = true
		}
		r.State(astx.HashString(fmt.Sprintf("%v|%v|%d|%d", c.Fields, c.Into, c.Mode, c.Target)), dupNames || len(c.Fields) > 1)
		r.Sample(n, func() interface{} { return fmt.Sprintf("%s [mode %d]", c.text(), c.Mode) })
		for _, f := range c20eval(c) {
			r.Report(f)
		}
	}
	enum := func(alpha []int, L int, skipBelow int) {
		total := 1
		for i := 0; i < L; i++ {
			total *= len(alpha)
		}
		parallelFor(total, func(idx int) {
			fs := make([]int, L)
			x := idx
			for i := 0; i < L; i++ {
				fs[i] = alpha[x%len(alpha)]
				x /= len(alpha)
			}
			for _, into := range []bool{false, true} {
				for mode := 0; mode < 5; mode++ {
					run(c20Case{Fields: fs, Into: into, Mode: mode})
					// an INTO clause is an INTO clause however its target is written (short lists)
					if into && L <= 2 {
						for tg := 1; tg < len(c20targets); tg++ {
							run(c20Case{Fields: fs, Into: into, Mode: mode, Target: tg})
						}
					}
				}
			}
		})
	}
	all := make([]int, 27) // the last fields only serve the long lists below
	for i := range all {
		all[i] = i
	}
	for L := 1; L <= maxLen; L++ {
		enum(all, L, 0)
	}
	for L := maxLen + 1; L <= coreLen; L++ {
		enum(c20core, L, 0)
	}
	// long lists: the suffix search has to pass 9 -> 10 and 99 -> 100, with the lower suffixes taken by repeats or by
	// aliases; nameless fields (arithmetic over literals) repeated
	var long [][]int
	for _, n := range []int{11, 12, 101} {
		l := make([]int, n)
		long = append(long, l) // n times x
		l2 := make([]int, n)
		for i := range l2 {
			l2[i] = 6 // n times mean(x)
		}
		long = append(long, l2)
	}
	long = append(long, []int{0, 3, 23, 27, 28, 29, 30, 31, 32, 33, 0, 0}, []int{34, 35, 34, 13}, []int{34, 34, 34, 34, 34, 34, 34, 34, 34, 34, 34, 34})
	long = append(long, []int{36}, []int{36, 36}, []int{37, 37, 37}, []int{36, 37, 36, 37}, []int{38, 38}, []int{39}, []int{40, 0}, []int{39, 40, 39, 17}, []int{0, 39}, []int{41, 41}, []int{41, 41, 41, 0}, []int{42, 42}, []int{43, 43, 41}, []int{41, 0, 41})
	for _, l := range long {
		for _, into := range []bool{false, true} {
			for mode := 0; mode < 5; mode++ {
				run(c20Case{Fields: l, Into: into, Mode: mode})
			}
		}
	}
	r.Set("field_alphabet", len(c20fields))
	r.Set("core_alphabet", len(c20core))
	r.Set("max_len_full_alphabet", maxLen)
	r.Set("max_len_core_alphabet", coreLen)
	r.Rule = "every field list up to the stated lengths over the field alphabet x {no INTO, INTO (lists of <=2 fields: four ways of writing the target, the :MEASUREMENT back-reference among them)} x {raw, after RewriteTimeFields, OmitTime, renamed in place after a first naming, RewriteTimeFields then OmitTime}; state = (list, into, mode); non-trivial = at least two fields"
}
