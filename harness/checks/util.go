package checks

import (
	"fmt"
	"os"
	"runtime"
	"runtime/debug"
	"sort"
	"strconv"
	"sync"
	"sync/atomic"
	"time"
)

// parallelFor runs fn(i) for i in [0,n) on all cores; chunks are handed out dynamically.
// Beats counts items handed to workers by parallelFor (a liveness signal for a watchdog).
var Beats int64

func parallelFor(n int, fn func(i int)) {
	w := runtime.GOMAXPROCS(0)
	if w > n {
		w = n
	}
	if w < 1 {
		w = 1
	}
	var next int64 = -1
	var wg sync.WaitGroup
	var pmu sync.Mutex
	var pv interface{}
	for k := 0; k < w; k++ {
		wg.Add(1)
		go func() {
			defer wg.Done()
			defer func() {
				if p := recover(); p != nil {
					pmu.Lock()
					if pv == nil {
						pv = fmt.Sprintf("%v\n%s", p, debug.Stack())
					}
					pmu.Unlock()
				}
			}()
			for {
				i := int(atomic.AddInt64(&next, 1))
				if i >= n {
					return
				}
				atomic.AddInt64(&Beats, 1)
				fn(i)
			}
		}()
	}
	wg.Wait()
	if pv != nil {
		panic(pv)
	}
}

// try runs f and returns the recovered panic (nil if none) with a short stack.
func try(f func()) (p interface{}, stack string) {
	defer func() {
		if r := recover(); r != nil {
			p = r
			stack = string(debug.Stack())
		}
	}()
	f()
	return nil, ""
}

type syncMutex = sync.Mutex

func sortStrings(s []string) { sort.Strings(s) }

// deadlineFor gives each exploration an internal wall-clock budget; hitting it ends the run with exit 0,
// exhaustive:false and whatever was fully covered (VERIF_DEADLINE_MIN overrides the default).
func deadlineFor(tier string) time.Time {
	min := 6
	if tier == "thorough" {
		min = 25
	}
	if v, err := strconv.Atoi(os.Getenv("VERIF_DEADLINE_MIN")); err == nil && v > 0 {
		min = v
	}
	return time.Now().Add(time.Duration(min) * time.Minute)
}
