package checks

import (
	"encoding/json"
	"fmt"
	"regexp"
	"sort"
	"strings"

	"github.com/influxdata/influxql"

	"verif/harness/astx"
	"verif/harness/ev"
)

// C03 — binary operators group by precedence and associate to the left.
//
// Alphabet: the 19 operator spellings; operands a,b,c,… (a regex literal after =~ / !~); one
// optional parenthesised contiguous sub-chain; up to m operands negated with unary minus.
// Oracle: an independent precedence-climbing parser over the token list.

type opSpec struct {
	text  string
	tok   influxql.Token
	level int
	regex bool
	space bool // needs surrounding spaces (word operator)
}

var c03ops = []opSpec{
	{"*", influxql.MUL, 5, false, false}, {"/", influxql.DIV, 5, false, false}, {"%", influxql.MOD, 5, false, false}, {"&", influxql.BITWISE_AND, 5, false, false},
	{"+", influxql.ADD, 4, false, false}, {"-", influxql.SUB, 4, false, false}, {"|", influxql.BITWISE_OR, 4, false, false}, {"^", influxql.BITWISE_XOR, 4, false, false},
	{"=", influxql.EQ, 3, false, false}, {"!=", influxql.NEQ, 3, false, false}, {"<>", influxql.NEQ, 3, false, false}, {"<", influxql.LT, 3, false, false},
	{"<=", influxql.LTE, 3, false, false}, {">", influxql.GT, 3, false, false}, {">=", influxql.GTE, 3, false, false},
	{"=~", influxql.EQREGEX, 3, true, false}, {"!~", influxql.NEQREGEX, 3, true, false},
	{"AND", influxql.AND, 2, false, true}, {"OR", influxql.OR, 1, false, true},
}

// c03Case is one chain.
type c03Case struct {
	Ops    []int `json:"ops"`     // indices into c03ops
	ParenI int   `json:"paren_i"` // parenthesised operand range [ParenI, ParenJ]; -1 = none
	ParenJ int   `json:"paren_j"`
	Paren2 []int `json:"paren2,omitempty"` // a second group [i, j], disjoint from or nested inside the first
	Neg    []int `json:"neg"`              // negated operand indices (never a regex operand)
	Tight  bool  `json:"tight,omitempty"`  // symbol operators written without blanks around them (a<-b, a*(b+c))
	Same   bool  `json:"same,omitempty"`   // every operand is called a (terms of a chain may repeat)
	Lit    []int `json:"lit,omitempty"`    // operands written as integer literals (a negated one is the literal -1)
}

type c03tok struct {
	kind string // "opnd", "op", "(", ")"
	op   int
	expr influxql.Expr
	text string
}

func c03operandName(i int) string {
	if i < 26 {
		return string(rune('a' + i))
	}
	return fmt.Sprintf("v%d", i)
}

// c03build renders the chain and builds the reference token list.
func c03build(c c03Case) (text string, toks []c03tok) {
	neg := map[int]bool{}
	for _, n := range c.Neg {
		neg[n] = true
	}
	lit := map[int]bool{}
	for _, n := range c.Lit {
		lit[n] = true
	}
	var b strings.Builder
	n := len(c.Ops) + 1
	for i := 0; i < n; i++ {
		if i > 0 {
			o := c03ops[c.Ops[i-1]]
			if c.Tight && !o.space {
				b.WriteString(o.text)
				// the one fusion hazard: a minus operator directly before a minus sign would start a `--` comment
				opensNeg := neg[i]
				for _, g := range c03groups(c) {
					if g[0] == i && g[2] == 1 && neg[-1-i] {
						opensNeg = true
					}
				}
				if o.text == "-" && opensNeg {
					b.WriteString(" ")
				}
			} else if c.Tight {
				// a word operator written tight against the parenthesis that follows it: a AND(b OR c)
				b.WriteString(" " + o.text)
				opensGroup := false
				for _, g := range c03groups(c) {
					if g[0] == i && !(g[2] == 1 && neg[-1-i]) {
						opensGroup = true
					}
				}
				if !opensGroup {
					b.WriteString(" ")
				}
			} else {
				b.WriteString(" " + o.text + " ")
			}
			toks = append(toks, c03tok{kind: "op", op: c.Ops[i-1], text: o.text})
		}
		// open every group that starts at this operand, outermost first; only the first group can carry a minus
		for _, g := range c03groups(c) {
			if g[0] != i {
				continue
			}
			isFirst := g[2] == 1
			if isFirst && neg[-1-i] {
				b.WriteString("-")
			}
			b.WriteString("(")
			toks = append(toks, c03tok{kind: "(", text: "(", op: b2i(isFirst && neg[-1-i])})
		}
		isRegex := i > 0 && c03ops[c.Ops[i-1]].regex
		var e influxql.Expr
		var t string
		if isRegex {
			src := "r" + c03operandName(i)
			e = &influxql.RegexLiteral{Val: regexp.MustCompile(src)}
			t = "/" + src + "/"
		} else if lit[i] {
			// a signed number is one literal, not a product
			v := int64(i + 2)
			if neg[i] {
				v = -1
			}
			e = &influxql.IntegerLiteral{Val: v}
			t = fmt.Sprint(v)
		} else {
			nm := c03operandName(i)
			if c.Same {
				nm = "a"
			}
			e = &influxql.VarRef{Val: nm}
			t = nm
			if neg[i] {
				e = &influxql.BinaryExpr{Op: influxql.MUL, LHS: &influxql.IntegerLiteral{Val: -1}, RHS: e}
				t = "-" + t
			}
		}
		b.WriteString(t)
		toks = append(toks, c03tok{kind: "opnd", expr: e, text: t})
		for _, g := range c03groups(c) {
			if g[1] == i {
				b.WriteString(")")
				toks = append(toks, c03tok{kind: ")", text: ")"})
			}
		}
	}
	return b.String(), toks
}

// c03groups lists the parenthesised groups as (start, end, isFirst), outermost first among those that start together.
func c03groups(c c03Case) [][3]int {
	var gs [][3]int
	if c.ParenI >= 0 {
		gs = append(gs, [3]int{c.ParenI, c.ParenJ, 1})
	}
	for k := 0; k+1 < len(c.Paren2); k += 2 {
		gs = append(gs, [3]int{c.Paren2[k], c.Paren2[k+1], 0})
	}
	sort.SliceStable(gs, func(a, b int) bool {
		if gs[a][0] != gs[b][0] {
			return gs[a][0] < gs[b][0]
		}
		return gs[a][1] > gs[b][1]
	})
	return gs
}

// reference precedence climbing
type c03parser struct {
	toks []c03tok
	pos  int
}

func (p *c03parser) primary() influxql.Expr {
	t := p.toks[p.pos]
	p.pos++
	if t.kind == "(" {
		e := p.expr(1)
		p.pos++        // ")"
		if t.op == 1 { // negated group
			return &influxql.BinaryExpr{Op: influxql.MUL, LHS: &influxql.IntegerLiteral{Val: -1}, RHS: &influxql.ParenExpr{Expr: e}}
		}
		return &influxql.ParenExpr{Expr: e}
	}
	return t.expr
}

func (p *c03parser) expr(minLevel int) influxql.Expr {
	lhs := p.primary()
	for p.pos < len(p.toks) && p.toks[p.pos].kind == "op" && c03ops[p.toks[p.pos].op].level >= minLevel {
		o := c03ops[p.toks[p.pos].op]
		p.pos++
		rhs := p.expr(o.level + 1) // left associative
		lhs = &influxql.BinaryExpr{Op: o.tok, LHS: lhs, RHS: rhs}
	}
	return lhs
}

func c03eval(c c03Case) []ev.Finding {
	var out []ev.Finding
	text, toks := c03build(c)
	rp := &c03parser{toks: toks}
	want := rp.expr(1)
	var got influxql.Expr
	var err error
	if p, st := try(func() { got, err = influxql.ParseExpr(text) }); p != nil {
		return []ev.Finding{{Sig: "panic:ParseExpr", Witness: text, Detail: fmt.Sprint(p) + "\n" + st, Case: c, Rank: len(c.Ops)}}
	}
	if err != nil {
		return []ev.Finding{{Sig: "rejected:" + ev.SigSafe(err.Error()), Witness: text, Detail: "ParseExpr failed: " + err.Error(), Case: c, Rank: len(c.Ops)}}
	}
	if path, a, b := astx.Diff(astx.Full, want, got); path != "" {
		out = append(out, ev.Finding{Sig: "grouping:" + c03levels(c), Witness: text,
			Detail: fmt.Sprintf("reference grouping %s, parser %s; first difference at %s: want %s got %s", want.String(), got.String(), path, a, b), Case: c, Rank: len(c.Ops)})
		return out
	}
	// the same expression as the condition and as a field of a statement: the statement parser must not regroup it
	// or drop its parentheses either (short chains; conditions go through parseCondition, fields through parseField)
	if len(c.Ops) <= 2 && !c.Tight {
		for _, tmpl := range []string{"SELECT x FROM m WHERE %s", "DELETE FROM m WHERE %s", "SELECT x FROM (SELECT y FROM m WHERE %s)"} {
			st, err := influxql.ParseStatement(fmt.Sprintf(tmpl, text))
			if err != nil {
				continue // not every chain is a legal condition (regex operands, field validation)
			}
			var cond influxql.Expr
			switch x := st.(type) {
			case *influxql.SelectStatement:
				cond = x.Condition
				if len(x.Sources) == 1 {
					if sq, ok := x.Sources[0].(*influxql.SubQuery); ok {
						cond = sq.Statement.Condition
					}
				}
			case *influxql.DeleteSeriesStatement:
				cond = x.Condition
			}
			if path, a, b := astx.Diff(astx.Full, want, cond); path != "" {
				out = append(out, ev.Finding{Sig: "grouping-in-statement:" + c03levels(c), Witness: fmt.Sprintf(tmpl, text),
					Detail: fmt.Sprintf("as a condition: reference %s, parser %v; first difference at %s: want %s got %s", want.String(), cond, path, a, b), Case: c, Rank: len(c.Ops)})
				return out
			}
		}
	}
	// second clause: printing and re-parsing gives the same grouping
	printed := got.String()
	again, err := influxql.ParseExpr(printed)
	if err != nil {
		out = append(out, ev.Finding{Sig: "reprint-rejected", Witness: text, Detail: fmt.Sprintf("String() = %q does not parse: %v", printed, err), Case: c, Rank: len(c.Ops)})
		return out
	}
	if path, a, b := astx.Diff(astx.Full, got, again); path != "" {
		sig := "reprint-regroups:other"
		// isolate the cause: drop the unary minus from every operand that is the right operand of a
		// level-5 operator; if the chain then round-trips, the failure is the known one.
		if len(c.Neg) > 0 {
			c2 := c
			c2.Neg = nil
			for _, n := range c.Neg {
				idx := n
				if n < 0 {
					idx = -1 - n
				}
				if !(idx > 0 && c03ops[c.Ops[idx-1]].level == 5) {
					c2.Neg = append(c2.Neg, n)
				}
			}
			if len(c2.Neg) != len(c.Neg) {
				t2, _ := c03build(c2)
				if g2, err := influxql.ParseExpr(t2); err == nil {
					if a2, err := influxql.ParseExpr(g2.String()); err == nil && astx.Equal(astx.Full, g2, a2) {
						sig = "reprint-regroups:unary-minus-as-right-operand-of-level5"
					}
				}
			}
		}
		out = append(out, ev.Finding{Sig: sig, Witness: text,
			Detail: fmt.Sprintf("String() = %q re-parses with a different grouping; first difference at %s: %s vs %s", printed, path, a, b), Case: c, Rank: len(c.Ops)*4 + len(c.Neg)})
	}
	return out
}

func b2i(b bool) int {
	if b {
		return 1
	}
	return 0
}

func c03levels(c c03Case) string {
	var s []string
	for _, o := range c.Ops {
		s = append(s, c03ops[o].text)
	}
	return ev.SigSafe(strings.Join(s, ","))
}

func init() {
	register(&Check{ID: "C03", Run: c03run, Replay: func(raw json.RawMessage) []ev.Finding {
		var c c03Case
		if json.Unmarshal(raw, &c) != nil {
			return nil
		}
		return c03eval(c)
	}})
}

func c03run(r *ev.Run) {
	nops := len(c03ops)
	bareK, parenK, maxNeg, tightK := 3, 3, 1, 2
	if thorough(r) {
		bareK, parenK, maxNeg, tightK = 5, 4, 2, 3
	}
	r.Rule = fmt.Sprintf("every chain of k<=%d operators over all %d spellings (bare), and for k<=%d every placement of one parenthesised contiguous sub-chain x every set of <=%d negated operands (incl. a negated group); in the quick tier also every level pattern of length 4 and 5 with the first and the last spelling of each level; each chain of k<=%d operators also written without blanks around its symbol operators; chains of <=3 operators with every set of operands written as integer literals and signs on literals and names alike; state = distinct expression text; non-trivial = parsed and compared with the reference grouping", bareK, nops, parenK, maxNeg, tightK)
	r.Set("operator_spellings", nops)
	r.Set("max_chain_bare", bareK)
	r.Set("max_chain_with_parens_and_negation", parenK)
	r.Set("max_negated_operands", maxNeg)

	var run func(c c03Case)
	run = func(c c03Case) {
		if !c.Tight && len(c.Ops) <= tightK {
			t := c
			t.Tight = true
			defer run(t)
		}
		if !c.Same && !c.Tight && len(c.Lit) == 0 && len(c.Ops) <= 3 {
			// the same chain with every operand called a: repeated terms are terms (a = a AND a = a has three operators)
			t := c
			t.Same = true
			defer run(t)
		}
		n := r.Eval()
		text, _ := c03build(c)
		r.State(astx.HashString(text), true)
		r.Trans(int64(len(c.Ops)) + 1)
		r.Sample(n, func() interface{} { return text })
		for _, f := range c03eval(c) {
			r.Report(f)
		}
	}
	// longer chains by level pattern: every sequence of levels of length 4 and 5 with one operator per level (what
	// the grouping depends on is the level sequence), with the first and with the last spelling of each level; the quick tier stops exhaustive spellings at k=3
	if bareK < 5 {
		rep := map[int][]int{} // level -> operator indices
		for i, o := range c03ops {
			if !o.regex {
				rep[o.level] = append(rep[o.level], i)
			}
		}
		for k := 4; k <= 5; k++ {
			total := 1
			for i := 0; i < k; i++ {
				total *= 5
			}
			kk := k
			parallelFor(total, func(idx int) {
				ops := make([]int, kk)
				alt := make([]int, kk)
				x := idx
				for i := 0; i < kk; i++ {
					lv := x%5 + 1
					ops[i] = rep[lv][0]
					alt[i] = rep[lv][len(rep[lv])-1]
					x /= 5
				}
				run(c03Case{Ops: ops, ParenI: -1, ParenJ: -1})
				run(c03Case{Ops: alt, ParenI: -1, ParenJ: -1})
			})
		}
	}
	// long left spines (a printer or parser that handles the first n levels of a spine specially) and many sibling
	// groups on one spine (a nesting guard that counts groups instead of depth): one operator spelling per level
	{
		var reps []int
		seenLevel := map[int]bool{}
		for i, o := range c03ops {
			if !o.regex && !seenLevel[o.level] {
				seenLevel[o.level] = true
				reps = append(reps, i)
			}
		}
		for _, k := range []int{15, 16, 17, 18, 31, 32, 33, 34, 64, 65, 130} {
			for _, op := range reps {
				ops := make([]int, k)
				for i := range ops {
					ops[i] = op
				}
				run(c03Case{Ops: ops, ParenI: -1, ParenJ: -1})
				// falling precedence first, then flat: the spine is entered through every level
				ops2 := make([]int, k)
				for i := range ops2 {
					ops2[i] = op
					if i < len(reps) {
						ops2[i] = reps[i]
					}
				}
				run(c03Case{Ops: ops2, ParenI: -1, ParenJ: -1})
			}
		}
		for _, n := range []int{16, 17, 32, 33, 40, 70} {
			for _, between := range reps {
				ops := make([]int, 2*n-1)
				var groups []int
				for g := 0; g < n; g++ {
					ops[2*g] = reps[1] // inside every group: an operator of the second level
					if g > 0 {
						ops[2*g-1] = between
						groups = append(groups, 2*g, 2*g+1)
					}
				}
				run(c03Case{Ops: ops, ParenI: 0, ParenJ: 1, Paren2: groups})
			}
		}
	}
	// operands written as numbers: every non-empty set of literal operands x every set of <= maxNeg signed ones, for
	// all spellings up to two operators and one spelling per level for three (a signed number is a single literal, and
	// a printer must not merge it with its neighbour)
	{
		var reps []int
		seenLevel := map[int]bool{}
		for i, o := range c03ops {
			if !o.regex && !seenLevel[o.level] {
				seenLevel[o.level] = true
				reps = append(reps, i)
			}
		}
		var all []int
		for i, o := range c03ops {
			if !o.regex {
				all = append(all, i)
			}
		}
		for k := 1; k <= 3; k++ {
			alpha := all
			if k == 3 && !thorough(r) {
				alpha = reps
			}
			total := 1
			for i := 0; i < k; i++ {
				total *= len(alpha)
			}
			kk, al := k, alpha
			parallelFor(total, func(idx int) {
				ops := make([]int, kk)
				x := idx
				for i := 0; i < kk; i++ {
					ops[i] = al[x%len(al)]
					x /= len(al)
				}
				for mask := 1; mask < 1<<(kk+1); mask++ {
					var lits []int
					for i := 0; i <= kk; i++ {
						if mask&(1<<i) != 0 {
							lits = append(lits, i)
						}
					}
					var rec func(start int, cur []int)
					rec = func(start int, cur []int) {
						run(c03Case{Ops: ops, ParenI: -1, ParenJ: -1, Neg: append([]int{}, cur...), Lit: lits})
						if len(cur) == maxNeg+1 {
							return
						}
						for q := start; q <= kk; q++ {
							rec(q+1, append(cur, q))
						}
					}
					rec(0, nil)
				}
			})
		}
	}
	for k := 1; k <= bareK; k++ {
		total := 1
		for i := 0; i < k; i++ {
			total *= nops
		}
		kk := k
		parallelFor(total, func(idx int) {
			ops := make([]int, kk)
			x := idx
			for i := 0; i < kk; i++ {
				ops[i] = x % nops
				x /= nops
			}
			base := c03Case{Ops: ops, ParenI: -1, ParenJ: -1}
			run(base)
			if kk > parenK {
				return
			}
			nOpnd := kk + 1
			// operands that can be negated
			var negable []int
			for i := 0; i < nOpnd; i++ {
				if !(i > 0 && c03ops[ops[i-1]].regex) {
					negable = append(negable, i)
				}
			}
			type pr struct{ i, j int }
			parens := []pr{{-1, -1}}
			for i := 0; i < nOpnd; i++ {
				for j := i; j < nOpnd; j++ {
					if i > 0 && c03ops[ops[i-1]].regex {
						continue // a regex operator needs a regex literal on its right
					}
					parens = append(parens, pr{i, j})
				}
			}
			for _, p := range parens {
				cands := append([]int{}, negable...)
				if p.i >= 0 {
					cands = append(cands, -1-p.i) // the group itself
				}
				// all subsets of size <= maxNeg
				var rec func(start int, cur []int)
				rec = func(start int, cur []int) {
					if !(p.i == -1 && len(cur) == 0) { // the bare chain was already run
						c := c03Case{Ops: ops, ParenI: p.i, ParenJ: p.j, Neg: append([]int{}, cur...)}
						run(c)
					}
					if len(cur) == maxNeg {
						return
					}
					for q := start; q < len(cands); q++ {
						rec(q+1, append(cur, cands[q]))
					}
				}
				rec(0, nil)
			}
			// two groups (disjoint, or one strictly inside the other) and an outer group around two disjoint inner groups
			gs := parens[1:]
			for _, p := range gs {
				for _, q := range gs {
					disjoint := q.i > p.j
					inside := q.i >= p.i && q.j <= p.j && (q.i > p.i || q.j < p.j)
					if disjoint || inside {
						run(c03Case{Ops: ops, ParenI: p.i, ParenJ: p.j, Paren2: []int{q.i, q.j}})
					}
					if disjoint {
						for _, o := range gs {
							if o.i <= p.i && o.j >= q.j && !(o.i == p.i && o.j == p.j) && !(o.i == q.i && o.j == q.j) {
								run(c03Case{Ops: ops, ParenI: o.i, ParenJ: o.j, Paren2: []int{p.i, p.j, q.i, q.j}})
							}
						}
					}
				}
			}
		})
	}
}
