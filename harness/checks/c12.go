package checks

import (
	"encoding/json"
	"fmt"
	"sort"
	"strings"

	"github.com/influxdata/influxql"

	"verif/harness/astx"
	"verif/harness/ev"
	"verif/harness/xplore"
)

// C12 — wildcard expansion yields exactly the schema's columns, deterministically.
//
// The expansion model below is written from the property text, not from RewriteFields.

// ---- type precedence (Float > Integer > Unsigned > String > Boolean > Tag; Unknown lowest) ---------------

func typeRank(t influxql.DataType) int {
	switch t {
	case influxql.Float:
		return 7
	case influxql.Integer:
		return 6
	case influxql.Unsigned:
		return 5
	case influxql.String:
		return 4
	case influxql.Boolean:
		return 3
	case influxql.Time:
		return 2
	case influxql.Duration:
		return 1
	case influxql.Tag:
		return 0
	}
	return -1
}

func higher(a, b influxql.DataType) influxql.DataType {
	if a == influxql.Unknown {
		return b
	}
	if b == influxql.Unknown {
		return a
	}
	if typeRank(b) > typeRank(a) {
		return b
	}
	return a
}

type c12model struct{ sc *schemaMapper }

// column is an output column of a source.
type c12col struct {
	name string
	typ  influxql.DataType
	have bool
}

// refType resolves the type of a bare reference against sources (measurements and already expanded subqueries).
func (m *c12model) refType(name string, sources influxql.Sources) influxql.DataType {
	typ := influxql.Unknown
	for _, src := range sources {
		switch src := src.(type) {
		case *influxql.Measurement:
			typ = higher(typ, m.sc.MapType(src, name))
		case *influxql.SubQuery:
			found := false
			for _, f := range src.Statement.Fields {
				if f.Name() == name {
					found = true
					typ = higher(typ, m.exprType(f.Expr, src.Statement.Sources))
					break
				}
				// the tag arguments of top()/bottom() are columns of their own
				if c, ok := f.Expr.(*influxql.Call); ok && (c.Name == "top" || c.Name == "bottom") && len(c.Args) > 2 {
					for _, a := range c.Args[1 : len(c.Args)-1] {
						if v, ok := a.(*influxql.VarRef); ok && v.Val == name {
							found = true
							typ = higher(typ, m.exprType(v, src.Statement.Sources))
						}
					}
					if found {
						break
					}
				}
			}
			if typ == influxql.Unknown {
				for _, d := range src.Statement.Dimensions {
					if v, ok := d.Expr.(*influxql.VarRef); ok && v.Val == name {
						typ = influxql.Tag
					}
				}
			}
		}
	}
	return typ
}

func (m *c12model) exprType(e influxql.Expr, sources influxql.Sources) influxql.DataType {
	switch e := e.(type) {
	case *influxql.VarRef:
		if e.Type != influxql.Unknown && e.Type != influxql.AnyField {
			return e.Type
		}
		return m.refType(e.Val, sources)
	case *influxql.ParenExpr:
		return m.exprType(e.Expr, sources)
	case *influxql.NumberLiteral:
		return influxql.Float
	case *influxql.IntegerLiteral:
		return influxql.Integer
	case *influxql.UnsignedLiteral:
		return influxql.Unsigned
	case *influxql.StringLiteral:
		return influxql.String
	case *influxql.BooleanLiteral:
		return influxql.Boolean
	}
	return influxql.Unknown // calls: no call type mapper is supplied
}

// columns merges the fields and tag keys of all sources.
func (m *c12model) columns(sources influxql.Sources) (fields map[string]influxql.DataType, tags map[string]bool) {
	fields, tags = map[string]influxql.DataType{}, map[string]bool{}
	for _, src := range sources {
		switch src := src.(type) {
		case *influxql.Measurement:
			ms, ok := m.sc.lookup(src)
			if !ok {
				continue
			}
			for k, t := range ms.Fields {
				fields[k] = higher(fields[k], t)
			}
			for _, t := range ms.Tags {
				tags[t] = true
			}
		case *influxql.SubQuery:
			for _, f := range src.Statement.Fields {
				k := f.Name()
				t := m.exprType(f.Expr, src.Statement.Sources)
				if old, ok := fields[k]; ok {
					fields[k] = higher(old, t)
				} else {
					fields[k] = t
				}
			}
			for _, d := range src.Statement.Dimensions {
				if v, ok := d.Expr.(*influxql.VarRef); ok {
					tags[v.Val] = true
				}
			}
		}
	}
	return
}

func hasWild(n influxql.Node) bool {
	found := false
	influxql.WalkFunc(n, func(x influxql.Node) {
		switch x.(type) {
		case *influxql.Wildcard, *influxql.RegexLiteral:
			found = true
		}
	})
	return found
}

// expand rewrites s in place the way the property describes; err != "" means the statement is one the
// expansion rejects (tag wildcard in a call, wildcard inside arithmetic).
func (m *c12model) expand(s *influxql.SelectStatement) (errText string) {
	for _, src := range s.Sources {
		if sq, ok := src.(*influxql.SubQuery); ok {
			if e := m.expand(sq.Statement); e != "" {
				return e
			}
		}
	}
	// untyped references in fields and condition receive their schema type
	typeRefs := func(n influxql.Node) {
		influxql.WalkFunc(n, func(x influxql.Node) {
			ref, ok := x.(*influxql.VarRef)
			if !ok || (ref.Type != influxql.Unknown && ref.Type != influxql.AnyField) {
				return
			}
			t := m.refType(ref.Val, s.Sources)
			if t == influxql.Tag && ref.Type == influxql.AnyField {
				return
			}
			ref.Type = t
		})
	}
	typeRefs(s.Fields)
	if s.Condition != nil {
		typeRefs(s.Condition)
	}
	fieldWild := hasWild(s.Fields)
	dimWild := false
	for _, d := range s.Dimensions {
		switch d.Expr.(type) {
		case *influxql.Wildcard, *influxql.RegexLiteral:
			dimWild = true
		}
	}
	if !fieldWild && !dimWild {
		return ""
	}
	fields, tags := m.columns(s.Sources)
	if !dimWild {
		for _, d := range s.Dimensions {
			if v, ok := d.Expr.(*influxql.VarRef); ok {
				delete(tags, v.Val) // already grouped by: not a field
			}
		}
	}
	var cols []influxql.VarRef
	if len(fields) > 0 {
		for k, t := range fields {
			cols = append(cols, influxql.VarRef{Val: k, Type: t})
		}
		if !dimWild {
			for k := range tags {
				cols = append(cols, influxql.VarRef{Val: k, Type: influxql.Tag})
			}
		}
		sort.Slice(cols, func(i, j int) bool {
			if cols[i].Val != cols[j].Val {
				return cols[i].Val < cols[j].Val
			}
			return cols[i].Type < cols[j].Type
		})
	}
	var tagNames []string
	if dimWild {
		for k := range tags {
			tagNames = append(tagNames, k)
		}
		sort.Strings(tagNames)
	}
	if fieldWild {
		var out influxql.Fields
		for _, f := range s.Fields {
			switch e := f.Expr.(type) {
			case *influxql.Wildcard:
				for _, c := range cols {
					if (e.Type == influxql.FIELD && c.Type == influxql.Tag) || (e.Type == influxql.TAG && c.Type != influxql.Tag) {
						continue
					}
					out = append(out, &influxql.Field{Expr: &influxql.VarRef{Val: c.Val, Type: c.Type}})
				}
			case *influxql.RegexLiteral:
				for _, c := range cols {
					if e.Val.MatchString(c.Val) {
						out = append(out, &influxql.Field{Expr: &influxql.VarRef{Val: c.Val, Type: c.Type}})
					}
				}
			case *influxql.Call:
				// innermost call along first arguments
				inner := e
				for len(inner.Args) > 0 {
					a, ok := inner.Args[0].(*influxql.Call)
					if !ok {
						break
					}
					inner = a
				}
				if len(inner.Args) == 0 {
					out = append(out, f)
					continue
				}
				var match func(string) bool
				switch a := inner.Args[0].(type) {
				case *influxql.Wildcard:
					if a.Type == influxql.TAG {
						return "tag wildcard in call"
					}
					match = func(string) bool { return true }
				case *influxql.RegexLiteral:
					match = a.Val.MatchString
				default:
					out = append(out, f)
					continue
				}
				ok := map[influxql.DataType]bool{influxql.Float: true, influxql.Integer: true, influxql.Unsigned: true}
				switch inner.Name {
				case "count", "first", "last", "distinct", "elapsed", "mode", "sample":
					ok[influxql.String] = true
					ok[influxql.Boolean] = true
				case "min", "max":
					ok[influxql.Boolean] = true
				case "holt_winters", "holt_winters_with_fit":
					delete(ok, influxql.Unsigned)
				}
				for _, c := range cols {
					if c.Type == influxql.Tag || !ok[c.Type] || !match(c.Val) {
						continue
					}
					out = append(out, &influxql.Field{Expr: c12substitute(e, &influxql.VarRef{Val: c.Val, Type: c.Type}), Alias: f.Name() + "_" + c.Val})
				}
			case *influxql.BinaryExpr:
				if hasWild(e) {
					return "wildcard in arithmetic"
				}
				out = append(out, f)
			default:
				out = append(out, f)
			}
		}
		s.Fields = out
	}
	if dimWild {
		var out influxql.Dimensions
		for _, d := range s.Dimensions {
			switch e := d.Expr.(type) {
			case *influxql.Wildcard:
				for _, t := range tagNames {
					out = append(out, &influxql.Dimension{Expr: &influxql.VarRef{Val: t}})
				}
			case *influxql.RegexLiteral:
				for _, t := range tagNames {
					if e.Val.MatchString(t) {
						out = append(out, &influxql.Dimension{Expr: &influxql.VarRef{Val: t}})
					}
				}
			default:
				out = append(out, d)
			}
		}
		s.Dimensions = out
	}
	return ""
}

// c12substitute copies the call chain with the innermost first argument replaced.
func c12substitute(c *influxql.Call, v *influxql.VarRef) influxql.Expr {
	out := &influxql.Call{Name: c.Name, Args: make([]influxql.Expr, len(c.Args))}
	for i, a := range c.Args {
		out.Args[i] = c12copy(a)
	}
	if in, ok := c.Args[0].(*influxql.Call); ok && len(c.Args) > 0 {
		out.Args[0] = c12substitute(in, v)
	} else {
		out.Args[0] = v
	}
	return out
}

func c12copy(e influxql.Expr) influxql.Expr {
	s := e.String()
	c, err := influxql.ParseExpr(s)
	if err != nil {
		// wildcards and regexes do not parse on their own; they are replaced or copied by kind
		switch x := e.(type) {
		case *influxql.Wildcard:
			return &influxql.Wildcard{Type: x.Type}
		case *influxql.RegexLiteral:
			return &influxql.RegexLiteral{Val: x.Val}
		}
		return e
	}
	// keep resolved types (String() prints them, ParseExpr reads them back)
	return c
}

// ---- the explored space ---------------------------------------------------------------------------------------

var c12fields = []string{"*", "*::field", "*::tag", "/x/", "/^h/", "mean(*)", "count(*)", "min(*)", "holt_winters(*, 1, 2)", "mean(/x|y/)", "count(distinct(*))",
	"derivative(mean(*), 1s)", "mean(*::field)", "mean(*::tag)", "top(*, 2)", "x", "x::float", "x AS al", "*, x", "host, *", "mean(x), /./", "x + y", "x + *", "mean(*) AS m", "x::field, host::tag, nosuch",
	"sample(*, 3)", "first(/^[xs]/)", "/^(y|x|y)$/", "mean(/^(y|x)$/)", "count(*), mean(*)", "holt_winters(*, 10, 2), sum(*), first(*)", "mean(/x|y|s/), count(/x|y|s/), min(*)",
	// a typed wildcard followed by another expansion in the same field list; a wildcard three calls deep
	"*::field, *", "*::tag, *::field, /./", "*::field, mean(*)", "cumulative_sum(derivative(mean(*), 1s))", "moving_average(difference(max(/y$/)), 3)"}
var c12dims = []string{"", "host", "*", "/^r/", "time(1m), *", "host, region", "time(1m), nosuch", "/^(region|host)$/", "/^(region|rack|region)$/, host", "/region|host/", "time(1m), host", "time(1m, 30s), region, host"}
var c12sources = []string{"m", "m1, m2", "m2, m1, m", "(SELECT * FROM m)", "(SELECT x, s FROM m GROUP BY host)", "(SELECT mean(x) FROM m1 GROUP BY *)", "(SELECT * FROM (SELECT * FROM m2))",
	"(SELECT x AS z, top(y, host, 2) FROM m), m2", "(SELECT mean(*) FROM m GROUP BY time(1m), /./)", "unknown_measurement", "empty", "(SELECT x FROM m), (SELECT y FROM m1 GROUP BY x)", "(SELECT y FROM m1 GROUP BY x), (SELECT x FROM m)", "(SELECT host, mean(x) FROM m GROUP BY host)",
	// sources that share a Name and differ in database, retention policy or pattern
	"m..q, m1..q", "m2.rp.q, m..q, q", "/^m/, /^m1/"}
var c12conds = []string{"", "x > 1 AND host = 'a' AND z::integer = 2"}

var c12typeAlts = []influxql.DataType{influxql.Float, influxql.Integer, influxql.Unsigned, influxql.String, influxql.Boolean}

// c12schema builds a schema through costed deviations from the base.
func c12schema(c *xplore.Ctx) (*schemaMapper, string) {
	base := map[string]measSchema{
		"m":     {Fields: map[string]influxql.DataType{"x": influxql.Float, "y": influxql.Integer, "s": influxql.String}, Tags: []string{"host", "region"}},
		"m1":    {Fields: map[string]influxql.DataType{"x": influxql.Integer, "b": influxql.Boolean}, Tags: []string{"host"}},
		"m2":    {Fields: map[string]influxql.DataType{"x": influxql.Unsigned, "u": influxql.Unsigned, "host": influxql.String}, Tags: []string{"region", "rack"}},
		"empty": {Fields: map[string]influxql.DataType{}, Tags: nil},
	}
	var desc []string
	names := []string{"m", "m1", "m2"}
	for _, n := range names {
		ms := base[n]
		var fnames []string
		for f := range ms.Fields {
			fnames = append(fnames, f)
		}
		sort.Strings(fnames)
		for _, f := range fnames {
			if k := c.Choose(1 + len(c12typeAlts)); k > 0 {
				ms.Fields[f] = c12typeAlts[k-1]
				desc = append(desc, fmt.Sprintf("%s.%s:%s", n, f, c12typeAlts[k-1]))
			}
		}
		switch c.Choose(6) {
		case 5:
			// a wide measurement in which every field is shadowed by a tag of the same name: more than a dozen
			// same-named pairs, so an unstable or name-only ordering shows as run-to-run differences
			for i := 0; i < 14; i++ {
				f := fmt.Sprintf("w%02d", i)
				ms.Fields[f] = c12typeAlts[i%len(c12typeAlts)]
				ms.Tags = append(ms.Tags, f)
			}
			desc = append(desc, n+".wide-shadowed")
		case 1:
			ms.Fields["host"] = influxql.Float // a field shadowing a tag
			desc = append(desc, n+".+field host")
		case 2:
			ms.Tags = append(ms.Tags, "x") // a tag shadowing a field
			desc = append(desc, n+".+tag x")
		case 3:
			ms.Tags = nil
			desc = append(desc, n+".no tags")
		case 4:
			ms = measSchema{Fields: map[string]influxql.DataType{}}
			desc = append(desc, n+".empty")
		}
		base[n] = ms
	}
	return &schemaMapper{M: base}, strings.Join(desc, " ")
}

type c12Case struct {
	Vector []int `json:"vector"`
}

func c12body(c *xplore.Ctx, repeats int) (text string, fs []ev.Finding, nontrivial bool, skipped bool) {
	fi, di, si, ci := c.Free(len(c12fields)), c.Free(len(c12dims)), c.Free(len(c12sources)), c.Free(len(c12conds))
	sc, sdesc := c12schema(c)
	text = "SELECT " + c12fields[fi] + " FROM " + c12sources[si]
	if c12conds[ci] != "" {
		text += " WHERE " + c12conds[ci]
	}
	if c12dims[di] != "" {
		text += " GROUP BY " + c12dims[di]
	}
	wit := text + "  [schema: base"
	if sdesc != "" {
		wit += " + " + sdesc
	}
	wit += "]"
	cs := c12Case{Vector: c.Vector()}
	rank := c.TotalCost()*1000 + len(text)
	parse := func() *influxql.SelectStatement {
		st, err := influxql.ParseStatement(text)
		if err != nil {
			return nil
		}
		return st.(*influxql.SelectStatement)
	}
	orig := parse()
	if orig == nil {
		return wit, []ev.Finding{{Sig: "generator:rejected", Witness: text, Detail: "does not parse", Case: cs}}, false, false
	}
	before := astx.Dump(astx.Full, orig)
	var got *influxql.SelectStatement
	var err error
	if p, st := try(func() { got, err = orig.RewriteFields(sc) }); p != nil {
		return wit, []ev.Finding{{Sig: "panic:RewriteFields:" + panicClass(p), Witness: wit, Detail: fmt.Sprint(p) + "\n" + trimStack(st), Case: cs, Rank: rank}}, true, false
	}
	if after := astx.Dump(astx.Full, orig); after != before {
		sig, d := c14diffSig("receiver-changed", before, after)
		fs = append(fs, ev.Finding{Sig: sig, Witness: wit, Detail: "RewriteFields changed the statement it was called on: " + d, Case: cs, Rank: rank})
	}
	want := parse()
	model := &c12model{sc: sc}
	merr := model.expand(want)
	switch {
	case merr != "" && err == nil:
		fs = append(fs, ev.Finding{Sig: "accepted-but-model-rejects:" + ev.SigSafe(merr), Witness: wit, Detail: "RewriteFields returned " + got.String(), Case: cs, Rank: rank})
	case merr == "" && err != nil:
		fs = append(fs, ev.Finding{Sig: "rejected:" + ev.SigSafe(errClass(err.Error())), Witness: wit, Detail: fmt.Sprintf("RewriteFields failed: %v; the expansion model gives %s", err, want.String()), Case: cs, Rank: rank})
	case merr == "" && err == nil:
		c12normalize(want)
		gotN := got.Clone()
		c12normalize(gotN)
		if path, a, b := astx.Diff(astx.Denoted, want, gotN); path != "" {
			fs = append(fs, ev.Finding{Sig: "expansion-differs:" + astx.GenericPath(path) + ":" + astx.ValueClass(a) + "→" + astx.ValueClass(b), Witness: wit,
				Detail: fmt.Sprintf("model: %s ; RewriteFields: %s ; first difference at %s: %s vs %s", want.String(), got.String(), path, a, b), Case: cs, Rank: rank})
		}
		// a mapper that hands out its own long-lived maps must find them untouched, and get the same answer
		pm := newPersistentMapper(sc)
		schemaBefore := astx.Dump(astx.Full, pm.cache)
		if again, err2 := parse().RewriteFields(pm); err2 != nil || astx.Dump(astx.Denoted, again) != astx.Dump(astx.Denoted, got) {
			fs = append(fs, ev.Finding{Sig: "differs-with-persistent-schema-maps", Witness: wit, Detail: fmt.Sprintf("with a mapper that returns the same maps on every call: %v (%v) vs %v", again, err2, got), Case: cs, Rank: rank})
		}
		if after := astx.Dump(astx.Full, pm.cache); after != schemaBefore {
			sig, d := c14diffSig("schema-maps-modified", schemaBefore, after)
			fs = append(fs, ev.Finding{Sig: sig, Witness: wit, Detail: "RewriteFields changed the maps the FieldMapper handed out: " + d, Case: cs, Rank: rank})
		}
		// determinism: repeated runs on fresh statements and fresh schema maps give the identical result
		first := astx.Dump(astx.Denoted, got)
		for i := 0; i < repeats; i++ {
			again, err2 := parse().RewriteFields(sc)
			if err2 != nil || astx.Dump(astx.Denoted, again) != first {
				fs = append(fs, ev.Finding{Sig: "nondeterministic", Witness: wit, Detail: fmt.Sprintf("run %d differs: %v vs %v", i+2, again, got), Case: cs, Rank: rank})
				break
			}
		}
	}
	return wit, fs, hasWild(orig.Fields) || hasWild(orig.Dimensions), false
}

// persistentMapper returns the same map objects on every call (a schema cache), unlike schemaMapper.
type persistentMapper struct {
	*schemaMapper
	cache map[string]*pmEntry
}

type pmEntry struct {
	Fields map[string]influxql.DataType
	Tags   map[string]struct{}
}

func newPersistentMapper(sc *schemaMapper) *persistentMapper {
	pm := &persistentMapper{schemaMapper: sc, cache: map[string]*pmEntry{}}
	for name := range sc.M {
		f, d, _ := sc.FieldDimensions(&influxql.Measurement{Name: name})
		pm.cache[name] = &pmEntry{f, d}
	}
	return pm
}

func (p *persistentMapper) FieldDimensions(m *influxql.Measurement) (map[string]influxql.DataType, map[string]struct{}, error) {
	if k, ok := p.key(m); ok {
		if e, ok := p.cache[k]; ok {
			return e.Fields, e.Tags, nil
		}
	}
	return nil, nil, nil
}

// c12normalize orders runs of adjacent same-named reference fields by type: the property fixes the order by name only.
func c12normalize(s *influxql.SelectStatement) {
	for _, src := range s.Sources {
		if sq, ok := src.(*influxql.SubQuery); ok {
			c12normalize(sq.Statement)
		}
	}
	f := s.Fields
	for i := 0; i < len(f); {
		j := i
		for j < len(f) && c12plainRef(f[j]) && c12plainRef(f[i]) && f[j].Expr.(*influxql.VarRef).Val == f[i].Expr.(*influxql.VarRef).Val {
			j++
		}
		if j > i+1 {
			sort.SliceStable(f[i:j], func(a, b int) bool {
				return f[i+a].Expr.(*influxql.VarRef).Type < f[i+b].Expr.(*influxql.VarRef).Type
			})
		}
		if j == i {
			j++
		}
		i = j
	}
}

func c12plainRef(f *influxql.Field) bool {
	_, ok := f.Expr.(*influxql.VarRef)
	return ok && f.Alias == ""
}

func init() {
	register(&Check{ID: "C12", Run: c12run, Replay: func(raw json.RawMessage) []ev.Finding {
		var c c12Case
		if json.Unmarshal(raw, &c) != nil {
			return nil
		}
		var out []ev.Finding
		xplore.Replay(func(x *xplore.Ctx) { _, out, _, _ = c12body(x, 8) }, c.Vector)
		return out
	}})
}

func c12run(r *ev.Run) {
	bound, repeats := 1, 4
	if thorough(r) {
		bound, repeats = 2, 3
	}
	ex := &xplore.Explorer{Bounds: []int{bound}, Workers: r.Workers, Deadline: deadlineFor(r.Tier), Body: func(c *xplore.Ctx) {
		wit, fs, nontriv, skip := c12body(c, repeats)
		if skip {
			return
		}
		n := r.Eval()
		r.State(astx.HashString(wit), nontriv)
		r.Sample(n, func() interface{} { return wit })
		for _, f := range fs {
			r.Report(f)
		}
	}}
	ex.Run()
	r.Trans(ex.Transitions * int64(repeats+1))
	if ex.Capped {
		r.Exhaustive = false
	}
	r.Set("field_forms", len(c12fields))
	r.Set("dimension_forms", len(c12dims))
	r.Set("source_forms", len(c12sources))
	r.Set("schema_deviation_bound", bound)
	r.Set("repeated_runs_per_case", repeats+1)
	r.Set("map_order", "repeated with fresh maps, not controlled: Go's map iteration order cannot be put behind a seam")
	r.Rule = fmt.Sprintf("statements = full product of %d field forms x %d GROUP BY forms x %d source forms (measurements, lists, 1-2 level subqueries, unknown and empty measurements) x 2 conditions; schemas = every schema within %d deviations of a base schema of 3 measurements with overlapping names and conflicting types (deviations: another type for a field out of 5, a field shadowing a tag, a tag shadowing a field, no tags, empty measurement); oracle: an independent expansion model written from the property text must equal RewriteFields' result, the receiver is unchanged, and %d repeated runs agree. non-trivial = the statement contains a wildcard or regex", len(c12fields), len(c12dims), len(c12sources), bound, repeats+1)
	r.Assumptions = []string{"independence from map iteration order is decided by repetition, not enumeration (stated limit)", "the order among same-named columns of different types is left open by the property and normalised before comparing", "schemas are those a database can hold: a measurement has at least one field or is entirely empty"}
}
