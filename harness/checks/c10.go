package checks

import (
	"encoding/json"
	"fmt"
	"math"
	"strings"
	"time"

	"github.com/influxdata/influxql"

	"verif/harness/astx"
	"verif/harness/ev"
)

// C10 — splitting a WHERE clause into time range and residual preserves its meaning.

type c10Case struct {
	Atoms    []int `json:"atoms"` // indices into the tier's atom table
	Shape    int   `json:"shape"`
	Zone     int   `json:"zone"`
	Thorough bool  `json:"thorough"`
	Long     int   `json:"long,omitempty"`      // a flat chain of this many predicates …
	LongKind int   `json:"long_kind,omitempty"` // … 0: host = 'hi' OR … in a group next to a time bound, 1: host != 'hi' AND … AND a time bound, 2: the time bound first
}

// c10long: a flat chain of many predicates is a conjunction (or a disjunction of non-time predicates) like any other:
// nesting is what parentheses do, not what the number of terms does. The chain ends in the one term that decides
// between host a and host b.
func c10long(c c10Case) []ev.Finding {
	var terms []string
	for i := 0; i < c.Long-1; i++ {
		if c.LongKind == 0 {
			terms = append(terms, fmt.Sprintf("host = 'h%d'", i))
		} else {
			terms = append(terms, fmt.Sprintf("host != 'h%d'", i))
		}
	}
	bound := fmt.Sprintf("time >= %d", cmV0)
	var text string
	switch c.LongKind {
	case 0:
		text = "(" + strings.Join(append(terms, "host = 'a'"), " OR ") + ") AND " + bound
	case 1:
		text = strings.Join(append(terms, "host = 'a'"), " AND ") + " AND " + bound
	default:
		text = bound + " AND " + strings.Join(append(terms, "host = 'a'"), " AND ")
	}
	wit := fmt.Sprintf("a chain of %d predicates, kind %d: %.80s…", c.Long, c.LongKind, text)
	expr, err := influxql.ParseExpr(text)
	if err != nil {
		return []ev.Finding{{Sig: "generator:rejected", Witness: wit, Detail: err.Error(), Case: c}}
	}
	var resid influxql.Expr
	var tr influxql.TimeRange
	if p, st := try(func() { resid, tr, err = influxql.ConditionExpr(expr, &influxql.NowValuer{Now: cmNow}) }); p != nil {
		return []ev.Finding{{Sig: "panic:ConditionExpr", Witness: wit, Detail: fmt.Sprint(p) + st, Case: c, Rank: c.Long}}
	}
	if err != nil {
		return []ev.Finding{{Sig: "error:long-flat-chain:" + ev.SigSafe(err.Error()), Witness: wit, Detail: "ConditionExpr failed on an in-scope condition: " + err.Error(), Case: c, Rank: c.Long}}
	}
	if tr.MinTimeNano() != cmV0 || tr.MaxTimeNano() != int64(influxql.MaxTime) {
		return []ev.Finding{{Sig: "split-changes-meaning:long-flat-chain", Witness: wit, Detail: fmt.Sprintf("range [%d,%d], want [%d,%d]", tr.MinTimeNano(), tr.MaxTimeNano(), cmV0, int64(influxql.MaxTime)), Case: c, Rank: c.Long}}
	}
	for _, h := range []string{"a", "b", "h0"} {
		got := resid == nil || influxql.EvalBool(resid, map[string]interface{}{"host": h})
		want := h == "a" || (c.LongKind == 0 && h == "h0" && c.Long >= 2)
		if got != want {
			return []ev.Finding{{Sig: "split-changes-meaning:long-flat-chain", Witness: wit, Detail: fmt.Sprintf("the residual is %v for host=%s", got, h), Case: c, Rank: c.Long}}
		}
	}
	return nil
}

func c10atoms(th bool) []cmAtom {
	lits := cmLiterals(true)
	a := cmTimeAtoms(lits, true)
	return append(a, cmNonTimeAtoms()...)
}

var c10tables = map[bool][]cmAtom{false: c10atoms(false), true: c10atoms(true)}

// c10otherCalls is a valuer that knows functions, but not now().
type c10otherCalls struct{}

func (c10otherCalls) Value(key string) (interface{}, bool) { return nil, false }
func (c10otherCalls) Call(name string, args []interface{}) (interface{}, bool) {
	if name == "pi" {
		return 3.14, true
	}
	return nil, false
}

func c10eval(c c10Case) []ev.Finding {
	if c.Long > 0 {
		return c10long(c)
	}
	tab := c10tables[c.Thorough]
	var atoms []cmAtom
	for _, i := range c.Atoms {
		atoms = append(atoms, tab[i])
	}
	text := cmRender(cmShapes[len(atoms)][c.Shape], atoms)
	z := c.Zone
	wit := fmt.Sprintf("%s [zone %s]", text, cmZoneName(cmZones[z]))
	rank := len(text)
	expr, err := influxql.ParseExpr(text)
	if err != nil {
		return []ev.Finding{{Sig: "generator:rejected", Witness: text, Detail: err.Error(), Case: c}}
	}
	valuer := &influxql.NowValuer{Now: cmNow, Location: cmZones[z]}
	var resid influxql.Expr
	var tr influxql.TimeRange
	if p, st := try(func() { resid, tr, err = influxql.ConditionExpr(expr, valuer) }); p != nil {
		return []ev.Finding{{Sig: "panic:ConditionExpr", Witness: wit, Detail: fmt.Sprint(p) + st, Case: c, Rank: rank}}
	}
	if err != nil {
		return []ev.Finding{{Sig: "error:" + ev.SigSafe(err.Error()), Witness: wit, Detail: "ConditionExpr failed on an in-scope condition: " + err.Error(), Case: c, Rank: rank}}
	}
	// The tree that was split is still the caller's condition: splitting it a second time must again be a correct
	// split of the condition as written (that a split leaves its argument alone is C14's business; that its answer
	// stays right when asked again is this property's).
	var resid2 influxql.Expr
	var tr2 influxql.TimeRange
	var err2 error
	if p, st := try(func() { resid2, tr2, err2 = influxql.ConditionExpr(expr, valuer) }); p != nil {
		return []ev.Finding{{Sig: "panic:ConditionExpr", Witness: wit, Detail: "second call on the same tree: " + fmt.Sprint(p) + st, Case: c, Rank: rank}}
	}
	if err2 != nil {
		return []ev.Finding{{Sig: "second-split:error", Witness: wit, Detail: "the first split succeeded, the second one on the same tree failed: " + err2.Error(), Case: c, Rank: rank}}
	}
	// the valuer may be a composition: a valuer that knows other functions (and not now()) in front of the clock, and
	// the clock inside a nested composition, change nothing
	for vi, v := range []influxql.Valuer{influxql.MultiValuer(c10otherCalls{}, valuer), influxql.MultiValuer(influxql.MultiValuer(influxql.MapValuer{}, c10otherCalls{}), influxql.MultiValuer(valuer))} {
		var r3 influxql.Expr
		var t3 influxql.TimeRange
		var e3 error
		if p, st := try(func() { r3, t3, e3 = influxql.ConditionExpr(influxql.CloneExpr(expr), v) }); p != nil {
			return []ev.Finding{{Sig: "panic:ConditionExpr", Witness: wit, Detail: "composite valuer: " + fmt.Sprint(p) + st, Case: c, Rank: rank}}
		}
		if e3 != nil || t3.MinTimeNano() != tr.MinTimeNano() || t3.MaxTimeNano() != tr.MaxTimeNano() || fmt.Sprint(r3) != fmt.Sprint(resid) {
			return []ev.Finding{{Sig: "split-depends-on-how-the-valuer-is-composed", Witness: wit,
				Detail: fmt.Sprintf("with the clock alone: range [%d,%d], residual %v; with composition %d: range [%d,%d], residual %v, error %v", tr.MinTimeNano(), tr.MaxTimeNano(), resid, vi, t3.MinTimeNano(), t3.MaxTimeNano(), r3, e3), Case: c, Rank: rank}}
		}
	}
	lo, hi := tr.MinTimeNano(), tr.MaxTimeNano()
	// the same range through Min/Max with IsZero = open
	lo2, hi2 := int64(influxql.MinTime), int64(influxql.MaxTime)
	// (UnixNano is only defined for representable instants; outside them the time.Time accessors are compared by order)
	if !tr.Min.IsZero() {
		if tr.MinTime().After(time.Unix(0, math.MaxInt64)) {
			lo2 = math.MaxInt64
		} else {
			lo2 = tr.MinTime().UnixNano()
		}
	}
	if !tr.Max.IsZero() {
		if tr.MaxTime().Before(time.Unix(0, math.MinInt64)) {
			hi2 = math.MinInt64
		} else {
			hi2 = tr.MaxTime().UnixNano()
		}
	}
	var out []ev.Finding
	if lo != lo2 || hi != hi2 {
		out = append(out, ev.Finding{Sig: "accessors-disagree", Witness: wit, Detail: fmt.Sprintf("MinTimeNano/MaxTimeNano = [%d,%d] but MinTime()/MaxTime() = [%d,%d]", lo, hi, lo2, hi2), Case: c, Rank: rank})
	}
	zl := cmLoc(cmZones[z])
	for _, p := range cmPoints(atoms, zl) {
		want := cmHolds(atoms, p, zl)
		got := lo <= p.t && p.t <= hi && (resid == nil || influxql.EvalBool(resid, p.env()))
		if want != got {
			sig := "split-changes-meaning"
			// cause isolation: which atom is the extreme one?
			for _, a := range atoms {
				if a.isTime && (a.form == "maxint64" || a.form == "minint64") {
					v := a.value(zl)
					if (a.op == ">" && v == int64(^uint64(0)>>1)) || (a.op == "<" && v == -int64(^uint64(0)>>1)-1) {
						sig = "split-changes-meaning:strict-bound-at-int64-extreme:" + a.op
					}
				}
			}
			rs := "nil"
			if resid != nil {
				rs = resid.String()
			}
			out = append(out, ev.Finding{Sig: sig, Witness: wit,
				Detail: fmt.Sprintf("at t=%d host=%s region=%s value=%d the condition is %v but range [%d,%d] + residual %s gives %v", p.t, p.host, p.region, p.value, want, lo, hi, rs, got), Case: c, Rank: rank})
			break
		}
		lo3, hi3 := tr2.MinTimeNano(), tr2.MaxTimeNano()
		if got2 := lo3 <= p.t && p.t <= hi3 && (resid2 == nil || influxql.EvalBool(resid2, p.env())); got2 != want {
			out = append(out, ev.Finding{Sig: "second-split-changes-meaning", Witness: wit,
				Detail: fmt.Sprintf("splitting the same tree a second time: at t=%d host=%s region=%s value=%d the condition is %v but range [%d,%d] + residual %v gives %v (first split: [%d,%d])", p.t, p.host, p.region, p.value, want, lo3, hi3, resid2, got2, lo, hi), Case: c, Rank: rank})
			break
		}
	}
	return out
}

func init() {
	register(&Check{ID: "C10", Run: c10run, Replay: func(raw json.RawMessage) []ev.Finding {
		var c c10Case
		if json.Unmarshal(raw, &c) != nil {
			return nil
		}
		return c10eval(c)
	}})
}

func c10run(r *ev.Run) {
	th := thorough(r)
	tab := c10tables[th]
	n := len(tab)
	// 3-atom alphabet: a spread of time atoms plus all non-time atoms
	var core []int
	for i, a := range tab {
		if !a.isTime {
			core = append(core, i)
		} else if th && (i%7 == 0 || a.upper) {
			core = append(core, i)
		} else if !th && i%23 == 0 {
			core = append(core, i)
		}
	}
	var points int64
	run := func(c c10Case) {
		k := r.Eval()
		var atoms []cmAtom
		nt := 0
		for _, i := range c.Atoms {
			atoms = append(atoms, tab[i])
			if tab[i].isTime {
				nt++
			}
		}
		r.Trans(int64(len(cmPoints(atoms, cmLoc(cmZones[c.Zone])))))
		r.State(astx.HashString(fmt.Sprintf("%v|%d|%d", c.Atoms, c.Shape, c.Zone)), nt > 0)
		r.Sample(k, func() interface{} {
			return fmt.Sprintf("%s [zone %s]", cmRender(cmShapes[len(atoms)][c.Shape], atoms), cmZoneName(cmZones[c.Zone]))
		})
		for _, f := range c10eval(c) {
			r.Report(f)
		}
	}
	_ = points
	for _, n := range []int{2, 33, 65, 101, 102, 103, 150, 257, 1000} {
		for kind := 0; kind < 3; kind++ {
			c := c10Case{Long: n, LongKind: kind}
			r.Eval()
			r.State(astx.HashString(fmt.Sprintf("L|%d|%d", n, kind)), true)
			for _, f := range c10long(c) {
				r.Report(f)
			}
		}
	}
	for z := range cmZones {
		z := z
		parallelFor(n, func(i int) {
			for s := range cmShapes[1] {
				run(c10Case{Atoms: []int{i}, Shape: s, Zone: z, Thorough: th})
			}
			for j := 0; j < n; j++ {
				for s := range cmShapes[2] {
					run(c10Case{Atoms: []int{i, j}, Shape: s, Zone: z, Thorough: th})
				}
			}
		})
		parallelFor(len(core), func(a int) {
			for _, b := range core {
				for _, cc := range core {
					for s := range cmShapes[3] {
						run(c10Case{Atoms: []int{core[a], b, cc}, Shape: s, Zone: z, Thorough: th})
					}
				}
			}
		})
	}
	r.Set("atom_alphabet", n)
	r.Set("three_atom_alphabet", len(core))
	r.Set("zones", len(cmZones))
	r.Rule = "conditions = 1-3 atoms joined by AND in every parenthesisation; time atoms = 5 operators x time on either side x 16 literal forms (+ upper-case TIME), non-time atoms = tag/field predicates incl. parenthesised ORs and `true`; each condition is split by the real ConditionExpr and compared with the structural meaning at timestamps b-1,b,b+1 around every bound plus MinTime, MaxTime, 0 x 8 tag/field combinations, in 2 zones. state = (condition, zone); non-trivial = at least one time atom"
	r.Assumptions = []string{"points are restricted to valid timestamps [MinTime, MaxTime]", "float bounds and OR between time predicates are outside the property and not generated"}
}
