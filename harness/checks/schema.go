package checks

import (
	"github.com/influxdata/influxql"
	"strings"
)

// schemaMapper is a FieldMapper over an explicit schema: per measurement name, typed fields and tag keys.
type measSchema struct {
	Fields map[string]influxql.DataType
	Tags   []string
}

type schemaMapper struct {
	M map[string]measSchema // keyed by measurement name; "*" = default for any other name
}

func (s *schemaMapper) lookup(m *influxql.Measurement) (measSchema, bool) {
	k, ok := s.key(m)
	return s.M[k], ok
}

// key names the schema entry a measurement resolves to.
func (s *schemaMapper) key(m *influxql.Measurement) (string, bool) {
	// A measurement is identified by database, retention policy and name together, and a regex source by its pattern:
	// `m1..q` has the schema registered as m1 whatever its name, and `/^m1/` that of m1 (two sources of one statement
	// may then share a Name and still be different measurements).
	if m.Database != "" {
		if _, ok := s.M[m.Database]; ok {
			return m.Database, true
		}
	}
	if m.Regex != nil {
		if k := strings.TrimPrefix(m.Regex.Val.String(), "^"); s.has(k) {
			return k, true
		}
	}
	if s.has(m.Name) {
		return m.Name, true
	}
	return "*", s.has("*")
}

func (s *schemaMapper) has(k string) bool { _, ok := s.M[k]; return ok }

func (s *schemaMapper) FieldDimensions(m *influxql.Measurement) (map[string]influxql.DataType, map[string]struct{}, error) {
	ms, ok := s.lookup(m)
	if !ok {
		return nil, nil, nil
	}
	// fresh maps on every call so that callers may mutate them and iteration order is re-randomised
	f := make(map[string]influxql.DataType, len(ms.Fields))
	for k, v := range ms.Fields {
		f[k] = v
	}
	d := make(map[string]struct{}, len(ms.Tags))
	for _, t := range ms.Tags {
		d[t] = struct{}{}
	}
	return f, d, nil
}

func (s *schemaMapper) MapType(m *influxql.Measurement, field string) influxql.DataType {
	ms, ok := s.lookup(m)
	if !ok {
		return influxql.Unknown
	}
	if t, ok := ms.Fields[field]; ok {
		return t
	}
	for _, tg := range ms.Tags {
		if tg == field {
			return influxql.Tag
		}
	}
	return influxql.Unknown
}

var c13schemas = []*schemaMapper{
	{M: map[string]measSchema{}},
	{M: map[string]measSchema{"*": {Fields: map[string]influxql.DataType{"x": influxql.Float, "y": influxql.Integer, "s": influxql.String, "b": influxql.Boolean, "u": influxql.Unsigned, "a": influxql.Float}, Tags: []string{"host", "region"}}}},
	{M: map[string]measSchema{"*": {Fields: map[string]influxql.DataType{"host": influxql.Float, "a": influxql.Integer}, Tags: []string{"host", "a", "x"}}}},
}
