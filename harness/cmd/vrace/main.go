// vrace is the free-running race-detector pass of C17: the same thread bodies as the schedule explorer, started
// as real goroutines with no synchronisation between them other than the final join, in a plain (uninstrumented)
// build compiled with -race. The Go race detector is happens-before based, so two goroutines with no edge between
// them report a conflicting pair whatever the actual timing. It sees what source-level instrumentation cannot:
// accesses made inside the standard library on the package's behalf. It is an auxiliary detector, not the
// deciding step; its reports are merged into the C17 evidence.
package main

import (
	"fmt"
	"os"
	"strconv"
	"sync"

	"github.com/influxdata/influxql"

	"verif/harness/c17b"
)

func main() {
	reps := 3
	if len(os.Args) > 1 {
		if n, err := strconv.Atoi(os.Args[1]); err == nil {
			reps = n
		}
	}
	bs := c17b.Bodies()
	var claimed []*c17b.Body
	for _, b := range bs {
		if !b.Control {
			claimed = append(claimed, b)
		}
	}
	scenarios := 0
	for sh := range c17b.SharedTexts {
		for i, a := range claimed {
			for j, b := range claimed {
				if j < i {
					continue
				}
				if sh > 0 && !a.Shared && !b.Shared {
					continue
				}
				scenarios++
				for r := 0; r < reps; r++ {
					c17b.Reset()
					st, err := influxql.ParseStatement(c17b.SharedTexts[sh])
					if err != nil {
						panic(err)
					}
					env := &c17b.Env{Shared: st, Sel: c17b.SelOf(st)}
					var wg sync.WaitGroup
					start := make(chan struct{})
					for _, body := range []*c17b.Body{a, b, a} {
						body := body
						wg.Add(1)
						go func() {
							defer wg.Done()
							defer func() { recover() }()
							<-start
							_ = body.Run(env)
						}()
					}
					close(start)
					wg.Wait()
				}
			}
		}
	}
	fmt.Printf("vrace: scenarios=%d repetitions=%d goroutines_per_scenario=3\n", scenarios, reps)
}
