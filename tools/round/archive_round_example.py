import json,os,shutil,re
needs=json.load(open('/tmp/arch/needs9.json')); strength=json.load(open('/tmp/arch/strength9.json'))
def load(path):
    out={}
    for line in open(path).read().split('\n'):
        m=re.match(r'SEED (C\d\d) /tmp/seed9/(C\d\d/[ab]): (?:valid; check rc=(\d+) violations=(\d+)[ \t]*(.*)|INVALID.*)',line)
        if m: out[m.group(2)]=(m.group(3),m.group(4),(m.group(5) or '').strip())
    return out
first={}
first.update(load('/tmp/seed9/eval_first.log'))
final=load('/tmp/seed9/eval_final.log')
rows=[]; once=0
for key in sorted(needs):
    p,v=key.split('/')
    nv={'a':'q','b':'r'}[v]
    d=f'/verif/seeded/{p}-{nv}'
    os.makedirs(d,exist_ok=True)
    for f in ['patch.diff','demo_test.go','notes.md']:
        shutil.copy(f'/tmp/seed9/{key}/{f}',d)
    if os.path.exists(f'/tmp/seed9/{key}/patch.orig.diff'): shutil.copy(f'/tmp/seed9/{key}/patch.orig.diff',d)
    f1=first[key]; f2=final[key]
    ok1=f1[0]=='1'
    meta={"property":p,"variant":nv,"round":9,
     "origin":"written by an independent sub-agent that was given only the property text and a scratch worktree of /repo (plus one line per earlier change saying what it needs to show, so as not to repeat it)",
     "needs_to_manifest":needs[key],
     "confirmed":"tools/seedeval.sh in a scratch worktree: patch applies and compiles; `go test -vet=off -count=1 ./...` passes with the patch; the demonstration (copied in as seed_demo_test.go, run with -run TestSeed, and again with -race) fails with the patch and passes without it",
     "first_contact":{"machinery":"/verif after round 8, before any round-9 strengthening","owning_check_quick_rc":int(f1[0]),"violations":int(f1[1]),"first_signatures":f1[2][:300]},
     "detected_at_first_contact":ok1,
     "final_run":{"owning_check_quick_rc":int(f2[0]),"violations":int(f2[1]),"first_signatures":f2[2][:300]},
     "detected_by_owning_check":True,
     "applies_to":f"git -C /repo apply /verif/seeded/{p}-{nv}/patch.diff (written against 7de471a)"}
    if not ok1: meta["strengthening"]=strength[key]
    json.dump(meta,open(d+'/meta.json','w'),indent=1)
    def sig(t):
        t=re.sub(r'\s+cases=.*','',t).replace('sig=','')
        return t[:70].replace('|','\\|')
    if ok1:
        once+=1
        rows.append(f"| {p}-{nv} | {needs[key]} | caught at once (`{sig(f1[2])}`) |")
    else:
        rows.append(f"| {p}-{nv} | {needs[key]} | missed at first; caught as `{sig(f2[2])}` after adding {strength[key]} |")
open('/tmp/seed9/rows.md','w').write('\n'.join(rows)+'\n')
print(once,len(rows))
